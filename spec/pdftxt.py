import re,zlib,sys
def unesc(b):
    out=bytearray();i=0
    while i<len(b):
        c=b[i]
        if c==0x5c:
            i+=1;c=b[i]
            m={ord('n'):10,ord('r'):13,ord('t'):9,ord('b'):8,ord('f'):12}
            if c in m: out.append(m[c])
            elif 48<=c<=55:
                j=i;v=0
                while j<len(b) and j<i+3 and 48<=b[j]<=55: v=v*8+b[j]-48;j+=1
                out.append(v&255);i=j-1
            else: out.append(c)
        else: out.append(c)
        i+=1
    return bytes(out)
def extract(fn):
    data=open(fn,'rb').read()
    pages=[]
    for m in re.finditer(rb'stream\r?\n',data):
        s=m.end();e=data.find(b'endstream',s)
        try: d=zlib.decompress(data[s:e])
        except Exception: continue
        if b'BT' not in d: continue
        items=[]
        for bt in re.finditer(rb'BT(.*?)ET',d,re.S):
            blk=bt.group(1)
            tm=re.search(rb'([-\d.]+) ([-\d.]+) ([-\d.]+) ([-\d.]+) ([-\d.]+) ([-\d.]+) Tm',blk)
            x=float(tm.group(5)) if tm else 0;y=float(tm.group(6)) if tm else 0
            txt=b''
            for tj in re.finditer(rb'\[(.*?)\]\s*TJ|\((.*?)\)\s*Tj',blk,re.S):
                if tj.group(1) is not None:
                    for s2 in re.finditer(rb'\(((?:\\.|[^\\)])*)\)',tj.group(1),re.S):
                        txt+=unesc(s2.group(1))
                else: txt+=unesc(tj.group(2))
            items.append((y,x,txt.decode('latin1')))
        pages.append(items)
    return pages
if __name__=='__main__':
    for pi,items in enumerate(extract(sys.argv[1])):
        print(f'=================== stream {pi}')
        rows={}
        for y,x,t in items:
            key=round(y/3)
            rows.setdefault(key,[]).append((x,t))
        for key in sorted(rows,reverse=True):
            line=''.join(t for x,t in sorted(rows[key]))
            if line.strip(): print(line)
