"""Validation of refproto against every worked example in the vendor PDFs and
docs/design.md (DESIGN.md §2.3 (a)).  Run at the start of every check; a failure
makes the run inconclusive (the oracle itself is broken)."""

from . import refproto as R

H = bytes.fromhex

AT4_VECTORS = [
    "5555 80b0 01 2a 0004 01020000 da59",
    "5555 80b0 01 2a 0004 00100000 23f8",
    "5555 80b0 01 2b 0000 f52f",
    "5555 b080 01 2b 000c 40640000ff00 41e41a806180 6579",
    "5555 80b0 01 2c 0004 81ff3f00 1a96",
    "5555 80b0 01 2c 0004 00403f00 c28f",
    "5555 80b0 01 2d 0000 f4cf",
    "5555 b080 01 2d 0010 40421a0061800000 01001a006180fffe cacb",
    "5555 90b0 01 1f 0003 ff1100 0983",
    "5555 90b0 01 1f 0003 ff1000 9982",
    "5555 90b0 01 1f 0003 ff1200 f983",
    "5555 b090 01 1f 000b ff12 00 47726f7570310000 fd18",
    "5555 90b0 01 1f 0002 ff12 820c",
    "5555 90b0 01 1f 0002 ff30 9b8c",
]
# AT5 vendor examples show the documented (inner) package only.
AT5_INNER_VECTORS = [
    "555555aa 80b0 0f c0 000c 20000000 0004 0001 0102ff00 f0a1",
    "555555aa 80b0 01 c0 0008 2100000000000000 a431",
    "555555aa 80b0 01 c0 000c 22000000 0004 0001 21ff00ff d347",
    "555555aa 80b0 01 c0 0008 2300000000000000 7db0",
    "555555aa 90b0 01 1f 0003 ff1100 0983",
    "555555aa 90b0 01 1f 0003 ff1000 9982",
    "555555aa 90b0 01 1f 0003 ff1300 6982",
    "555555aa 90b0 01 1f 0002 ff13 42cd",
    "555555aa 90b0 01 1f 0002 ff30 9b8c",
]
AT5_FULL_VECTORS = [  # docs/design.md (recorded traffic incl. the outer header)
    "555555ab 0000 000e 000e 555555aa 90b0 31 1f 0002 ff13 b2c8",
    "555555ab 0000 000e 000e 555555aa b090 31 1f 0002 ff13 68eb",
]


def run():
    """Returns (n_vectors_checked, problems)."""
    problems = []
    n = 0
    for v in AT4_VECTORS:
        raw = H(v.replace(" ", ""))
        n += 1
        frames, rest, err = R.parse_stream(4, raw)
        if err or rest or len(frames) != 1 or not frames[0].crc_ok:
            problems.append(("at4 parse", v, err))
            continue
        f = frames[0]
        if R.frame(4, f.to, f.frm, f.pid, f.typ, f.data) != raw:
            problems.append(("at4 rebuild", v))
    for v in AT5_INNER_VECTORS:
        raw = H(v.replace(" ", ""))
        n += 1
        body = raw[4:-2]
        if R.crc_bytes(body) != raw[-2:]:
            problems.append(("at5 inner crc", v))
            continue
        full = R.frame(5, body[0], body[1], body[2], body[3], body[6:])
        if full[10:] != raw:
            problems.append(("at5 inner rebuild", v))
        frames, rest, err = R.parse_stream(5, full)
        if err or rest or len(frames) != 1 or not frames[0].crc_ok:
            problems.append(("at5 parse", v, err))
    for v in AT5_FULL_VECTORS:
        raw = H(v.replace(" ", ""))
        n += 1
        frames, rest, err = R.parse_stream(5, raw)
        if err or rest or len(frames) != 1 or not frames[0].crc_ok:
            problems.append(("at5 full parse", v, err))
            continue
        f = frames[0]
        if R.frame(5, f.to, f.frm, f.pid, f.typ, f.data) != raw:
            problems.append(("at5 full rebuild", v))

    # semantic readings printed in the documents
    def expect(what, got, want):
        nonlocal n
        n += 1
        if got != want:
            problems.append((what, got, want))

    g = R.at4_group_status(H("40640000ff0041e41a806180"))["groups"]
    expect("at4 g0 power", g[0]["power"], "on")
    expect("at4 g0 damper", g[0]["damper"], 100)
    expect("at4 g0 temp", g[0]["temperature"], R.NA)
    expect("at4 g1 group", g[1]["group"], 1)
    expect("at4 g1 sp", g[1]["set_point"], 26)
    expect("at4 g1 temp", g[1]["temperature"], 28.0)
    expect("at4 g1 ctl", g[1]["control_method"], "temperature")
    a = R.at4_ac_status(H("40421a006180000001001a006180fffe"))["acs"]
    expect("at4 ac0", (a[0]["power"], a[0]["mode"], a[0]["fan"], a[0]["set_point"],
                       a[0]["temperature"], a[0]["error"]),
           ("on", "cool", "low", 26, 28.0, 0))
    expect("at4 ac1", (a[1]["ac"], a[1]["power"], a[1]["error"]), (1, "off", 0xFFFE))
    ab = R.at4_ac_ability(H("0016554e4954000000000000000000000000" "0004171d111f"))
    ab = ab["abilities"][0]
    expect("at4 ability", (ab["name"], ab["start"], ab["count"], ab["min_sp"],
                           ab["max_sp"], ab["modes"]["cool"], ab["modes"]["fan"],
                           ab["fans"]["low"], ab["fans"]["quiet"]),
           ("UNIT", 0, 4, 17, 31, True, False, True, False))
    expect("at4 err", R.error_info(H("00084552" "3a2046464645")),
           {"ac": 0, "text": "ER: FFFE"})
    expect("at4 names", R.at4_group_names(H("00" "4c6976696e670000" "01" "4b69746368656e00"))
           ["names"], {0: "Living", 1: "Kitchen"})
    expect("at4 ver", R.console_version(H("000b312e332e337c312e332e33"), "|"),
           {"update": False, "versions": ["1.3.3", "1.3.3"]})
    z = R.at5_c0_status(H("2100000000080002" "4080968002e70000" "0164ff0007ff0000"))["zones"]
    expect("at5 z0", (z[0]["power"], z[0]["control_method"], z[0]["set_point"],
                      z[0]["sensor"], z[0]["temperature"]),
           ("on", "temperature", 25.0, True, 24.3))
    expect("at5 z1", (z[1]["zone"], z[1]["power"], z[1]["damper"], z[1]["set_point"],
                      z[1]["sensor"], z[1]["temperature"]),
           (1, "off", 100, R.NA, False, R.NA))
    c = R.at5_c0_status(H("23000000000a0002" "101278c002da00008000" "014264c002e400008000"))
    c = c["acs"]
    expect("at5 ac0", (c[0]["power"], c[0]["mode"], c[0]["fan"], c[0]["set_point"],
                       c[0]["temperature"], c[0]["error"]),
           ("on", "heat", "low", 22.0, 23.0, 0))
    expect("at5 ac1", (c[1]["ac"], c[1]["power"], c[1]["mode"], c[1]["set_point"],
                       c[1]["temperature"]), (1, "off", "cool", 20.0, 24.0))
    b = R.at5_ac_ability(H("0018554e495400000000000000000000000000041 71d101f121f"
                           .replace(" ", "")))["abilities"][0]
    expect("at5 ability", (b["name"], b["count"], b["min_cool"], b["max_cool"],
                           b["min_heat"], b["max_heat"]), ("UNIT", 4, 16, 31, 18, 31))
    expect("at5 names", R.at5_zone_names(H("00064c6976696e67" "01074b69746368656e"))["names"],
           {0: "Living", 1: "Kitchen"})
    expect("at5 ver", R.console_version(H("000b312e302e332c312e302e33"), ","),
           {"update": False, "versions": ["1.0.3", "1.0.3"]})
    f = R.parse_stream(4, H("555580b0012a000401020000da59"))[0][0]
    cmd = R.read_command(f)
    expect("at4 cmd zone off", (cmd["zone"], cmd["power"], cmd["setting"], cmd["control_type"]),
           (1, "off", R.KEEP, R.KEEP))
    f = R.parse_stream(4, H("555580b0012c000481ff3f001a96"))[0][0]
    cmd = R.read_command(f)
    expect("at4 cmd ac off", (cmd["ac"], cmd["power"], cmd["mode"], cmd["fan"], cmd["setpoint"]),
           (1, "off", R.KEEP, R.KEEP, R.KEEP))
    f = R.parse_stream(5, R.frame(5, 0x80, 0xB0, 1, 0xC0,
                                  H("2200000000040002" "004f00ff" "01ff40a0")))[0][0]
    cmd = R.read_command(f)["records"]
    expect("at5 cmd ac cool", (cmd[0]["ac"], cmd[0]["mode"], cmd[0]["fan"], cmd[0]["power"],
                               cmd[0]["setpoint"]), (0, "cool", R.KEEP, R.KEEP, R.KEEP))
    expect("at5 cmd ac 26", (cmd[1]["ac"], cmd[1]["mode"], cmd[1]["setpoint"],
                             (cmd[1]["setpoint_value"] + 100) / 10), (1, R.KEEP, "set", 26.0))
    expect("disc4", R.discovery_response(b"192.168.1.2,AA:BB,AirTouch4,123"),
           {"model": 4, "host": "192.168.1.2", "serial": "AA:BB", "id": "123", "name": None})
    expect("disc5", R.discovery_response(b"192.168.1.2,C1,AirTouch5,123,My, House"),
           {"model": 5, "host": "192.168.1.2", "serial": "C1", "id": "123", "name": "My, House"})
    return n, problems


if __name__ == "__main__":
    n, p = run()
    print(n, "vectors;", len(p), "problems")
    for x in p:
        print("  ", x)
    raise SystemExit(1 if p else 0)
