"""API-level world: a real AirTouch4/AirTouch5 object (via pyairtouch.connect)
talking to a SimConsole over the simulated network."""

from __future__ import annotations

import asyncio
import datetime

import pyairtouch.api as api

from . import console as C
from . import harness as H
from . import refproto as R
from . import sockscript as S
from .sockworld import quiesce


class ApiWorld:
    def __init__(self, gen, loop, net, log, inst=None, knobs=None, host=None):
        self.gen = gen
        self.loop, self.net, self.log = loop, net, log
        self.inst = inst if inst is not None else C.default_installation(gen, 1, (2,))
        # host given: one of several clients / consoles on the same simulated network
        self.host = host
        self.console = C.SimConsole(net, self.inst, knobs, host=host)
        self.at = H.connect(gen) if host is None else H.connect(gen, host)
        if H.POLL_DEFAULT:
            handle0 = self.console._handle

            def handle(conn, f, cmd):
                if self.at is not None:
                    H.snapshot(self.at)
                return handle0(conn, f, cmd)
            self.console._handle = handle

    def conn(self):
        """This client's open connection (None while down)."""
        cs = [c for c in self.net.open_conns() if self.host is None or c.host == self.host]
        return cs[-1] if cs else None

    async def init(self):
        return await H.probe(self.log, "init", self.at.init())

    @property
    def ac(self):
        return self.at.air_conditioners[0]

    def zone(self, i=0):
        return self.ac.zones[i]


# ----------------------------------------------------------------- commands
# name -> (callable(world) -> coroutine, class, reference kind of the frame)

def _ac(w):
    return w.at.air_conditioners[0]


def _z(w):
    return w.at.air_conditioners[0].zones[0]


def _commands(gen):
    P, M, Fs, ZP, T = (api.AcPowerControl, api.AcMode, api.AcFanSpeed, api.ZonePowerState,
                       api.AcTimerType)
    cmds = {
        "ac_power_on": (lambda w: _ac(w).set_power(P.TURN_ON), "idem", "ac_control"),
        "ac_power_off": (lambda w: _ac(w).set_power(P.TURN_OFF), "idem", "ac_control"),
        "ac_power_toggle": (lambda w: _ac(w).set_power(P.TOGGLE), "nonidem", "ac_control"),
        "ac_mode_cool": (lambda w: _ac(w).set_mode(M.COOL), "idem", "ac_control"),
        "ac_mode_heat_on": (lambda w: _ac(w).set_mode(M.HEAT, power_on=True), "idem",
                            "ac_control"),
        "ac_fan_low": (lambda w: _ac(w).set_fan_speed(Fs.LOW), "idem", "ac_control"),
        "ac_setpoint": (lambda w: _ac(w).set_target_temperature(23.0), "idem", "ac_control"),
        "zone_on": (lambda w: _z(w).set_power(ZP.ON), "idem", "zone_control"),
        "zone_off": (lambda w: _z(w).set_power(ZP.OFF), "idem", "zone_control"),
        "zone_turbo": (lambda w: _z(w).set_power(ZP.TURBO), "idem", "zone_control"),
        "zone_setpoint": (lambda w: _z(w).set_target_temperature(21.0), "idem", "zone_control"),
        "zone_damper": (lambda w: _z(w).set_damper_percentage(55), "idem", "zone_control"),
        "qt_duration": (lambda w: _ac(w).set_quick_timer(
            T.OFF_TIMER, datetime.timedelta(hours=1, minutes=30)), "idem", "quick_timer"),
        "qt_time": (lambda w: _ac(w).set_quick_timer(T.ON_TIMER, datetime.time(6, 45)), "idem",
                    "timer_control"),
        "qt_clear": (lambda w: _ac(w).clear_quick_timer(T.ON_TIMER), "idem", "timer_control"),
        "check_updates": (lambda w: w.at.check_for_updates(), "idem", "version_request"),
    }
    if gen == 5:
        cmds["ac_away"] = (lambda w: _ac(w).set_power(P.SET_TO_AWAY), "idem", "ac_control")
        cmds["ac_sleep"] = (lambda w: _ac(w).set_power(P.SET_TO_SLEEP), "idem", "ac_control")
        cmds["ac_fan_ia"] = (lambda w: _ac(w).set_fan_speed(Fs.INTELLIGENT_AUTO), "idem",
                             "ac_control")
    # commands without a public entry point (private helpers; see C02 assumptions)
    if gen == 4:
        import pyairtouch.at4.comms.x2A_group_ctrl as g
        import pyairtouch.at4.comms.x2C_ac_ctrl as a
        cmds["~ac_sp_inc"] = (lambda w: _ac(w)._send_ac_control_message(
            set_point_control=a.AcIncreaseDecrease.INCREASE), "nonidem", "ac_control")
        cmds["~ac_sp_dec"] = (lambda w: _ac(w)._send_ac_control_message(
            set_point_control=a.AcIncreaseDecrease.DECREASE), "nonidem", "ac_control")
        cmds["~zone_inc"] = (lambda w: _z(w)._send_group_control_message(
            setting=g.GroupIncreaseDecrease.INCREASE), "nonidem", "zone_control")
        cmds["~zone_dec"] = (lambda w: _z(w)._send_group_control_message(
            setting=g.GroupIncreaseDecrease.DECREASE), "nonidem", "zone_control")
        cmds["~zone_method_change"] = (lambda w: _z(w)._send_group_control_message(
            control_method=g.GroupControlMethod.CHANGE), "nonidem", "zone_control")
    else:
        import pyairtouch.at5.comms.xC020_zone_ctrl as z
        cmds["~zone_inc"] = (lambda w: _z(w)._send_zone_control_message(
            zone_setting=z.ZoneIncreaseDecrease.INCREASE), "nonidem", "zone_control")
        cmds["~zone_dec"] = (lambda w: _z(w)._send_zone_control_message(
            zone_setting=z.ZoneIncreaseDecrease.DECREASE), "nonidem", "zone_control")
        cmds["~zone_toggle"] = (lambda w: _z(w)._send_zone_control_message(
            zone_power=z.ZonePowerControl.TOGGLE), "nonidem", "zone_control")
    return cmds


_CMDS = {}


def commands(gen):
    if gen not in _CMDS:
        _CMDS[gen] = _commands(gen)
    return _CMDS[gen]


COMMANDS = {4: sorted(_commands(4)), 5: sorted(_commands(5))}

LIFETIME = {"idem": 30.0, "nonidem": 30.0, "conn": 1.0}
RETRIES = {"idem": 2, "nonidem": 0, "conn": 0}


def frame_attempts(gen, log, since_seq=0):
    """All frames the client wrote (complete or truncated by a write fault):
    list of dict(seq, t, conn, raw (bytes written of that frame), fault, cmd, pid, typ)."""
    by = S.frames_by_conn(gen, log)
    out = []
    for cid, b in sorted(by.items()):
        for inf in b["frames"]:
            f = inf["frame"]
            faulted = any(w[3] for w in b["writes"] if inf["seq"] <= w[0] < inf["seq"] + 3)
            try:
                cmd = R.read_command(f)
            except R.Reject as e:
                cmd = {"kind": "reject", "why": str(e)}
            out.append({"seq": inf["seq"], "t": inf["t"], "conn": cid, "raw": f.raw,
                        "fault": faulted, "cmd": cmd, "pid": f.pid, "typ": f.typ,
                        "data": bytes(f.data), "complete": True,
                        "first_on_conn": inf is b["frames"][0]})
        if b["rest"]:
            start = len(b["raw"]) - len(b["rest"])
            o = 0
            seq = t = None
            for w in b["writes"]:
                if o <= start < o + len(w[2]):
                    seq, t = w[0], w[1]
                o += len(w[2])
            out.append({"seq": seq, "t": t, "conn": cid, "raw": bytes(b["rest"]), "fault": True,
                        "cmd": None, "complete": False, "first_on_conn": start == 0,
                        "pid": None, "typ": None, "data": None})
    out = [a for a in out if a["seq"] is not None and a["seq"] >= since_seq]
    out.sort(key=lambda a: a["seq"])
    return out


def same_message(a, b):
    """Two writes belong to the same queued message iff their bytes agree on the
    common prefix (a retry re-uses the stored header, hence the same packet id)."""
    n = min(len(a["raw"]), len(b["raw"]))
    return n > 0 and a["raw"][:n] == b["raw"][:n]


async def lose_link(w, how="fin"):
    c = w.net.current()
    if c is None:
        return
    if how == "fin":
        c.transport.peer_eof()
    else:
        c.transport.peer_reset()


def retry_case(case):
    """API-level retry discipline (C02).  Returns (violations, obs)."""
    gen = case["gen"]
    viol = []
    obs = {}
    fault = case["fault"]
    out = {}

    async def main(loop, net, log):
        w = ApiWorld(gen, loop, net, log)
        ok = await w.init()
        if ok is not True:
            out["init"] = ok
            return
        await asyncio.sleep(1.0)
        await quiesce(loop)
        c = net.current()
        if case["k"] == "api":
            fn, cls, kind = commands(gen)[case["cmd"]]
        else:
            fn, cls, kind = None, "conn", {"heartbeat": "version_request",
                                           "refresh": "ac_status_request",
                                           "error_info": "error_request",
                                           "group_poll": "zone_status_request"}[case["req"]]
        out["cls"], out["kind"] = cls, kind
        # ---- arrange the fault
        x = None
        if fault[0] == "w":
            n = int(fault[1])
        elif fault[0] == "k":
            k = int(fault[1])
            n = 1
            for _ in range(k - 1):
                net.script.append(("accept", 0.0, 1))
        elif fault.startswith("down_"):
            x = float(fault[5:])
            net.script.append(("accept", x))
            await lose_link(w, "fin")
            await quiesce(loop)
        # ---- trigger
        t0 = loop.time()
        out["t0"] = t0
        if case["k"] == "api":
            if x is None:
                c.fail_write_at = c.nwrites + n
            mark = log.mark()
            r = await H.probe(log, case["cmd"], fn(w))
            out["raised"] = isinstance(r, Exception) and repr(r)
            if case.get("again"):
                # a retry loop of the application: init() again on the object that is
                # initialised already, while the command is held for the next connection
                log.add("API.call", name="init_again")
                r2 = await H.probe(log, "init_again", w.at.init())
                obs["init_again_while_a_command_is_held"] = 1
                if r2 is not True:
                    out["init_again"] = r2
        else:
            req = case["req"]
            if req == "heartbeat":
                # next heartbeat tick is at 300 s after init
                await asyncio.sleep(300.0 - loop.time() - 1e-3)
                c = net.current()
                if x is None:
                    c.fail_write_at = c.nwrites + n
                else:
                    pass
                mark = log.mark()
                await asyncio.sleep(2e-3)
            elif req == "error_info":
                st = w.inst["acs"][0]["status"]
                st["error"] = 0x0102
                c = net.current()
                if x is None and c is not None:
                    c.fail_write_at = c.nwrites + n
                mark = log.mark()
                if c is not None:
                    w.console.send(c, w.console.frame_ac_status())
            elif req == "group_poll":
                await asyncio.sleep(300.0 - loop.time() - 1e-3)
                c = net.current()
                if x is None:
                    # the heartbeat fires at the same instant; fail the poll's own frame by
                    # failing every write of that instant
                    c.fail_write_at = c.nwrites + n
                mark = log.mark()
                await asyncio.sleep(2e-3)
            else:  # refresh: requests issued on the connected notification
                mark = log.mark()
                net.script.append(("accept", 0.0, n if x is None else None))
                if x is None:
                    await lose_link(w, "rst")
        out["mark"] = mark
        await quiesce(loop)
        await asyncio.sleep((x or 0.0) + 40.0)
        await quiesce(loop)
        out["attempts"] = frame_attempts(gen, log, mark)
        out["opens"] = [(seq, t, d["conn"]) for seq, t, k_, d in log.events
                        if k_ == "NET.open" and seq >= mark]
        out["unhandled"] = [e for e in log.events if e[2] == "LOOP.unhandled"]
        await w.at.shutdown()

    _, log, st = H.run(main)

    def v(mech, **d):
        viol.append({"mechanism": mech, "detail": d, "log": H.log_slice(log, 40)})

    if st != "ok" or "attempts" not in out:
        v("api-retry-scenario-did-not-finish", status=st, out={k: x for k, x in out.items()
                                                                if k != "attempts"})
        return viol, obs
    if out.get("raised"):
        v("command-raised", exc=out["raised"])
        return viol, obs
    cls, kind = out["cls"], out["kind"]
    att = out["attempts"]
    # the message under test: first frame of the expected kind written after the trigger
    # (for 'down' cases there may be none at all)
    cand = [a for a in att if (a["cmd"] and a["cmd"]["kind"] == kind) or not a["complete"]]
    if case["k"] == "api_req" and case["req"] == "refresh":
        cand = [a for a in att if (a["cmd"] and a["cmd"]["kind"] == kind) or not a["complete"]]
    mine = []
    if cand:
        first = cand[0]
        mine = [a for a in att if same_message(a, first)]
    L = LIFETIME[cls]
    budget = 1 + RETRIES[cls]
    t0 = out["t0"]
    info = dict(cls=cls, kind=kind, attempts=[(a["t"], a["conn"], a["fault"]) for a in mine])
    if len(mine) > budget:
        v("more-attempts-than-retry-budget", **info)
    if cls == "nonidem" and len(mine) > 1:
        v("non-idempotent-command-transmitted-twice", **info)
    for a in mine:
        if a["t"] >= t0 + L and case["k"] == "api":
            v("attempt-at-or-after-expiry", **info)
    if fault[0] in "wk":
        k = 1 if fault[0] == "w" else int(fault[1])
        if not mine or not mine[0]["fault"]:
            # the arranged fault did not hit the message (e.g. other traffic went first)
            obs["fault_missed_message"] = 1
            return viol, obs
        obs["faults_hit_inflight"] = 1
        want = 1 if RETRIES[cls] == 0 else min(k + 1, budget)
        if len(mine) < want:
            v("idempotent-command-lost-after-one-write-fault" if k == 1 and cls == "idem"
              else "fewer-attempts-than-policy-allows", want=want, **info)
        elif cls == "idem" and k == 1:
            if not mine[1]["first_on_conn"]:
                v("retried-command-not-first-on-next-connection", **info)
            else:
                obs["retried_first_on_next_connection"] = 1
        if RETRIES[cls] == 0 and len(mine) == 1:
            obs["nonidempotent_not_resent"] = 1
        if len(mine) == budget and all(a["fault"] for a in mine):
            obs["dropped_after_budget"] = 1
    else:
        x = float(fault[5:])
        if case["k"] == "api":
            if x < L:
                if len(mine) != 1:
                    v("held-command-not-transmitted-once-on-reconnect", down_for=x, **info)
                elif abs(mine[0]["t"] - (t0 + x)) > 1e-6:
                    v("held-command-not-transmitted-as-soon-as-connected", down_for=x, **info)
            elif mine:
                v("attempt-at-or-after-expiry", down_for=x, **info)
            obs["expiry_boundary_cases"] = 1
    obs["api_commands_classified"] = 1
    return viol, obs


def handshake_fault_case(case):
    """C02 at API level, handshake requests: a write fault hits the n-th write of the first
    connection while init() runs its six-step handshake (each request is three writes), the
    next connection comes after `lat` seconds (optionally after a refusal).  Handshake and
    refresh requests are connected-only and never retried: no request frame (identified by its
    exact bytes incl. packet id) may be put on the wire twice, whatever happens next.
    Returns (violations, obs)."""
    gen = case["gen"]
    viol, obs, out = [], {}, {}

    async def main(loop, net, log):
        net.script.append(("accept", 0.0, case["write"]))
        if case.get("refuse"):
            net.script.append(("refuse", 0.0))
        net.script.append(("accept", case["lat"]))
        inst = None
        if case.get("zones0"):
            # an installation without zones / groups (the handshake takes its special paths)
            inst = C.default_installation(gen, 2, (0, 0))
        w = ApiWorld(gen, loop, net, log, inst)
        out["ret"] = await w.init()
        await asyncio.sleep(10.0)
        await quiesce(loop)
        out["attempts"] = frame_attempts(gen, log, 0)
        out["conns"] = len(net.conns)
        await w.at.shutdown()

    _, log, st = H.run(main)

    def v(mech, **d):
        viol.append({"mechanism": mech, "detail": dict(d, case=case), "log": H.log_slice(log, 40)})

    if st != "ok" or "attempts" not in out:
        v("api-retry-scenario-did-not-finish", status=st)
        return viol, obs
    att = out["attempts"]
    hit = [a for a in att if a["fault"]]
    if not hit or out["conns"] < 2:
        obs["fault_missed_message"] = 1
        return viol, obs
    first = hit[0]
    again = [a for a in att if a is not first and a["seq"] > first["seq"]
             and same_message(a, first)]
    kind = first["cmd"]["kind"] if first["cmd"] else "truncated"
    if again:
        v("connected-only-request-transmitted-again-after-write-fault", kind=kind,
          first=(first["t"], first["conn"]), again=[(a["t"], a["conn"]) for a in again])
    else:
        obs["handshake_request_not_resent"] = 1
    # and no complete request frame at all is on the wire twice
    seen = {}
    for a in att:
        if a["complete"]:
            seen.setdefault(a["raw"], []).append((a["t"], a["conn"]))
    dup = {k.hex(): x for k, x in seen.items() if len(x) > 1}
    if dup:
        v("request-frame-on-the-wire-twice", frames=dup)
    obs["faults_hit_inflight"] = 1
    obs["api_commands_classified"] = 1
    return viol, obs


# ------------------------------------------------------------ model-fed world

class ModelWorld(ApiWorld):
    """ApiWorld + reference model fed with exactly the bytes delivered to the client."""

    def __init__(self, gen, loop, net, log, inst=None, knobs=None, host=None):
        super().__init__(gen, loop, net, log, inst, knobs, host=host)
        from .refmodel import RefModel
        self.model = RefModel(gen)
        self._fed = 0
        self._bufs = {}
        self._conn_host = {}

    def feed(self):
        """Apply frames delivered since the last call; returns the change list."""
        changes = []
        ev = self.log.events
        while self._fed < len(ev):
            seq, t, kind, d = ev[self._fed]
            self._fed += 1
            if kind == "NET.open":
                self._conn_host[d["conn"]] = d["host"]
            if kind == "NET.deliver":
                if self.host is not None and self._conn_host.get(d["conn"]) != self.host:
                    continue   # a frame for another client on the same simulated network
                buf = self._bufs.setdefault(d["conn"], bytearray())
                buf += d["data"]
                frames, rest, err = R.parse_stream(self.gen, bytes(buf))
                if err:
                    buf.clear()
                    continue
                del buf[:len(buf) - len(rest)]
                for f in frames:
                    if f.crc_ok:
                        changes += [(seq,) + c for c in self.model.apply(f.typ, f.data, f.to)]
        return changes

    async def init_and_sync(self):
        ok = await self.init()
        await quiesce(self.loop)
        self.feed()
        self.model.connected()
        return ok

    async def inject(self, raw):
        c = self.conn()
        if c is None:
            return False
        self.console.send(c, raw)
        await quiesce(self.loop)
        return True
