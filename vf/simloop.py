"""Virtual-time asyncio loop and simulated TCP/UDP network (DESIGN.md §2.1, §2.2).

Everything above the transport is the real asyncio: StreamReader/Writer,
StreamReaderProtocol, Task, asyncio.timeout, wait_for, Event, as_completed.
The harness controls only what the outside world controls: when connections
complete, what bytes arrive and how they are cut, when the peer closes/resets,
write faults and back-pressure.  It never reorders the ready queue.
"""

from __future__ import annotations

import asyncio
import heapq
import itertools
import selectors
import types
import socket as _real_socket


class Quiescent(Exception):
    """The loop has nothing ready and no timer: a deterministic hang."""


class Livelock(Exception):
    """The loop keeps running ready callbacks without ever going idle: some task spins at one
    virtual instant (e.g. a read loop that keeps hitting end-of-stream)."""


LIVELOCK_ITERATIONS = 200_000
_BUSY = None
import os as _os
if _os.environ.get("VF_BUSY"):
    import atexit as _atexit
    _BUSY = [0]
    _atexit.register(lambda: open(_os.environ["VF_BUSY"], "a").write(f"{_BUSY[0]}\n"))


class _VSel(selectors.BaseSelector):
    def __init__(self, loop):
        self.loop = loop
        self._map = {}

    def register(self, fileobj, events, data=None):
        fd = fileobj if isinstance(fileobj, int) else fileobj.fileno()
        k = selectors.SelectorKey(fileobj, fd, events, data)
        self._map[fd] = k
        return k

    def unregister(self, fileobj):
        fd = fileobj if isinstance(fileobj, int) else fileobj.fileno()
        return self._map.pop(fd)

    def modify(self, fileobj, events, data=None):
        self.unregister(fileobj)
        return self.register(fileobj, events, data)

    def select(self, timeout=None):
        self.loop._advance(timeout)
        return []

    def get_map(self):
        return self._map

    def close(self):
        self._map.clear()


class EventLog:
    """Append-only event log: (seq, vtime, kind, data)."""

    def __init__(self):
        self.events = []
        self.loop = None

    def add(self, kind, **data):
        t = self.loop.time() if self.loop is not None else 0.0
        self.events.append((len(self.events), t, kind, data))

    def of(self, *kinds):
        return [e for e in self.events if e[2] in kinds]

    def since(self, seq):
        return self.events[seq:]

    def mark(self):
        return len(self.events)


class SimLoop(asyncio.SelectorEventLoop):
    def __init__(self, net=None, log=None):
        self._vtime = 0.0
        super().__init__(selector=_VSel(self))
        self._clock_resolution = 1e-9
        self.net = net
        self.log = log if log is not None else (net.log if net is not None else EventLog())
        self.log.loop = self
        if net is not None:
            net.loop = self
        self.iteration = 0
        self._idle_iteration = 0
        self.hooks = {}
        self.set_exception_handler(self._on_unhandled)

    # -- time
    def time(self):
        return self._vtime

    def block(self, seconds):
        """A callback that does not return for `seconds` (a synchronous call in some
        application task): the clock moves on, nothing else runs meanwhile; timers that fall
        due in between fire when it ends, in the order they were due."""
        self.log.add("LOOP.blocked", seconds=seconds)
        self._vtime += seconds

    def _advance(self, timeout):
        if timeout is None:
            raise Quiescent("no ready handles and no timers")
        if timeout > 0:
            self._idle_iteration = self.iteration
            while self._scheduled and self._scheduled[0]._cancelled:
                h = heapq.heappop(self._scheduled)
                h._scheduled = False
                self._timer_cancelled_count -= 1
            if self._scheduled:
                self._vtime = max(self._vtime, self._scheduled[0]._when)
            else:
                self._vtime += timeout

    def _run_once(self):
        self.iteration += 1
        if _BUSY is not None and self.iteration - self._idle_iteration > _BUSY[0]:
            _BUSY[0] = self.iteration - self._idle_iteration
        if self.iteration - self._idle_iteration > LIVELOCK_ITERATIONS:
            self._idle_iteration = self.iteration
            raise Livelock(f"{LIVELOCK_ITERATIONS} loop iterations at virtual time "
                           f"{self._vtime} without going idle")
        h = self.hooks.pop(self.iteration, None)
        if h is not None:
            h()
        super()._run_once()

    def _on_unhandled(self, loop, ctx):
        exc = ctx.get("exception")
        self.log.add(
            "LOOP.unhandled",
            message=ctx.get("message"),
            exc=repr(exc) if exc is not None else None,
            exc_type=type(exc).__name__ if exc is not None else None,
            task=_task_name(ctx.get("task") or ctx.get("future")),
        )

    # -- network
    async def create_connection(self, protocol_factory, host=None, port=None, **kw):
        return await self.net.connect(self, protocol_factory, host, port)

    async def create_datagram_endpoint(self, protocol_factory, local_addr=None,
                                       remote_addr=None, **kw):
        return self.net.udp_endpoint(self, protocol_factory, kw.get("sock"))


def _task_name(t):
    if t is None:
        return None
    try:
        c = t.get_coro()
        return getattr(c, "__qualname__", repr(c))
    except Exception:
        return repr(t)


class SimTransport(asyncio.Transport):
    """Mirrors asyncio.selector_events._SelectorSocketTransport semantics."""

    def __init__(self, loop, protocol, conn):
        super().__init__()
        self._loop = loop
        self._protocol = protocol
        self.conn = conn
        self._closing = False
        self._conn_lost = 0
        self._lost_called = False
        self._peer_fin = False
        self._paused_reading = False
        self._stalled = False
        self._buffer = []
        self._proto_paused = False
        self._rst_pending = False

    # --- client-side API
    def get_extra_info(self, name, default=None):
        if name == "peername":
            return (getattr(self.conn, "addr", self.conn.host), self.conn.port)
        return default

    def is_closing(self):
        return self._closing

    def set_write_buffer_limits(self, high=None, low=None):
        pass

    def get_write_buffer_size(self):
        return sum(len(b[0]) for b in self._buffer)

    def get_write_buffer_limits(self):
        return (0, 0)

    def get_protocol(self):
        return self._protocol

    def set_protocol(self, p):
        self._protocol = p

    def pause_reading(self):
        self._paused_reading = True

    def resume_reading(self):
        self._paused_reading = False

    def is_reading(self):
        return not self._paused_reading and not self._closing

    def can_write_eof(self):
        return True

    def write(self, data):
        orig = data          # a selector transport keeps what it cannot send at once BY
        data = bytes(data)   # REFERENCE (memoryview / bytearray are not copied)
        if self._conn_lost:
            self._conn_lost += 1
            self.conn.net.log.add("NET.write_ignored", conn=self.conn.id, data=data)
            return
        if not data:
            return
        self.conn.on_client_write(data, orig)

    def close(self):
        if self._closing:
            return
        self._closing = True
        if getattr(self, "_graceful", False) and self._stalled and self._buffer:
            # what a selector transport does: a graceful close goes on sending what is
            # buffered and closes the connection once the buffer is empty - i.e. when the
            # peer reads again (stall(graceful=True); the default discards, see below)
            self._close_pending = True
            self.conn.net.log.add("NET.close_pending", conn=self.conn.id,
                                  buffered=sum(len(c) for c, _, _ in self._buffer))
            return
        self.conn.on_client_close(fault=False)
        # (a stalled buffer is discarded: scripts never close while stalled
        # without a reset; see DESIGN.md §2.2)
        self._buffer.clear()
        self._conn_lost += 1
        self._loop.call_soon(self._call_connection_lost, None)

    def abort(self):
        dropped = sum(len(c) for c, _, _ in self._buffer)
        self.conn.net.log.add("NET.abort", conn=self.conn.id, dropped=dropped)
        self._force_close(None)

    def _force_close(self, exc):
        if self._conn_lost:
            return
        self._buffer.clear()
        if not self._closing:
            self._closing = True
            self.conn.on_client_close(fault=True)
        self._conn_lost += 1
        self._loop.call_soon(self._call_connection_lost, exc)

    def _call_connection_lost(self, exc):
        if self._lost_called:
            return
        self._lost_called = True
        self._protocol.connection_lost(exc)

    # --- peer-side API (used by scripts / the simulated console)
    @property
    def deliverable(self):
        return not (self._closing or self._conn_lost or self._peer_fin)

    def peer_data(self, data):
        """Deliver one TCP segment to the client.  Returns False if TCP could
        not deliver it (connection closed, or peer already sent FIN)."""
        if not self.deliverable or not data:
            return False
        self.conn.net.log.add("NET.deliver", conn=self.conn.id, data=bytes(data))
        self._protocol.data_received(bytes(data))
        return True

    def peer_eof(self):
        if not self.deliverable:
            return False
        self._peer_fin = True
        self.conn.net.log.add("NET.peer_fin", conn=self.conn.id)
        keep = self._protocol.eof_received()
        if not keep:
            self.close()
        return True

    def peer_reset(self, exc=None):
        if self._conn_lost:
            return False
        self.conn.net.log.add("NET.peer_rst", conn=self.conn.id, after_fin=self._peer_fin)
        if self._peer_fin and not self._closing:
            # A selector transport stops reading once it has seen EOF (the stream
            # protocol keeps the write side open): a reset that follows the FIN is
            # only noticed by the next write (EPIPE/ECONNRESET).  The model must not
            # show the client what TCP + asyncio cannot show it.
            self._rst_pending = True
            return True
        self._force_close(exc or ConnectionResetError(104, "Connection reset by peer"))
        return True

    def stall(self, graceful=False):
        """Peer stops reading: further writes are buffered, drain() suspends.
        graceful: a close() by the client while stalled keeps the buffer and completes when the
        peer reads again (unstall), as on a real transport."""
        self._stalled = True
        self._graceful = graceful
        self.conn.net.log.add("NET.stall", conn=self.conn.id)

    def unstall(self):
        if not self._stalled:
            return
        self._stalled = False
        buf, self._buffer = self._buffer, []
        for copy, orig, n in buf:
            actual = bytes(orig)
            if actual != copy:
                # the application changed the buffer it had handed to write(): what goes out
                # now is not what was written
                self.conn.net.log.add("NET.write_mutated", conn=self.conn.id, n=n,
                                      written=copy, sent=actual)
            self.conn.console_receive(actual)
        if getattr(self, "_close_pending", False):
            self._close_pending = False
            self.conn.on_client_close(fault=False)
            self._conn_lost += 1
            self._loop.call_soon(self._call_connection_lost, None)
            return
        if self._proto_paused and not self._conn_lost:
            self._proto_paused = False
            self._protocol.resume_writing()


class Conn:
    def __init__(self, net, host, port):
        self.id = next(net._ids)
        self.net = net
        self.host = host
        self.port = port
        self.written = bytearray()  # bytes the client wrote (incl. faulting write)
        self.received = bytearray()  # bytes that reached the console
        self.open = True
        self.transport = None
        self.fail_write_at = None
        self.nwrites = 0
        self.opened_at = net.loop.time()
        self.closed_at = None
        self.on_data = None

    def on_client_write(self, data, orig=None):
        self.nwrites += 1
        tr = self.transport
        fault = (self.fail_write_at is not None and self.nwrites >= self.fail_write_at) \
            or tr._rst_pending
        self.net.log.add("NET.write", conn=self.id, data=data, fault=fault,
                         n=self.nwrites)
        self.written += data
        if fault:
            self.fail_write_at = None
            exc = {"reset": ConnectionResetError(104, "Connection reset by peer (injected)"),
                   "timeout": TimeoutError(110, "Connection timed out (injected)"),
                   "oserror": OSError(5, "Input/output error (injected)"),
                   }.get(getattr(self, "fail_exc", None),
                         BrokenPipeError(32, "Broken pipe (injected)"))
            tr._force_close(exc)
            return
        if tr._stalled:
            tr._buffer.append((data, orig if orig is not None else data, self.nwrites))
            if not tr._proto_paused:
                tr._proto_paused = True
                tr._protocol.pause_writing()
            return
        self.console_receive(data)

    def console_receive(self, data):
        self.received += data
        if self.on_data is not None:
            self.on_data(self, data)
        elif self.net.on_data is not None:
            self.net.on_data(self, data)

    def on_client_close(self, fault=False):
        if self.open:
            self.open = False
            self.closed_at = self.net.loop.time()
            self.net.log.add("NET.close", conn=self.id, fault=fault)
            if self.net.on_close is not None:
                self.net.on_close(self)


class SimDatagramTransport(asyncio.DatagramTransport):
    def __init__(self, loop, protocol, net, sock):
        super().__init__()
        self._loop = loop
        self._protocol = protocol
        self.net = net
        self.sock = sock
        self.closed = False

    def sendto(self, data, addr=None):
        if self.closed:
            self.net.log.add("UDP.sendto_closed", data=bytes(data), addr=addr)
            return
        self.net.log.add("UDP.sendto", data=bytes(data), addr=addr,
                         port=getattr(self.sock, "bound", None))
        if self.net.on_udp is not None:
            self.net.on_udp(self, bytes(data), addr)

    def close(self):
        if self.closed:
            return
        self.closed = True
        self.net.log.add("UDP.close", port=getattr(self.sock, "bound", None))
        if self.sock is not None:
            self.sock.close()
        self._loop.call_soon(self._protocol.connection_lost, None)

    def abort(self):
        self.close()

    def is_closing(self):
        return self.closed

    def get_extra_info(self, name, default=None):
        if name == "socket":
            return self.sock
        return default

    def report_error(self, exc):
        """The OS reports an error for this socket (a failed sendto(), an ICMP port
        unreachable): asyncio hands it to the protocol's error_received()."""
        if self.closed:
            return False
        self.net.log.add("UDP.error", exc=repr(exc), port=getattr(self.sock, "bound", None))

        def cb():
            if not self.closed:
                self._protocol.error_received(exc)

        self._loop.call_soon(cb)
        return True

    # peer side
    def deliver(self, data, addr):
        """Datagram arrives from the network (like _read_ready: the protocol
        callback runs directly from the loop; exceptions go to the loop's
        exception handler, as with a real selector transport)."""
        if self.closed:
            return False
        self.net.log.add("UDP.deliver", data=bytes(data), addr=addr,
                         port=getattr(self.sock, "bound", None))

        def cb():
            if not self.closed:
                self._protocol.datagram_received(bytes(data), addr)

        self._loop.call_soon(cb)
        return True


class FakeSocket:
    """Stand-in for socket.socket used by pyairtouch.comms.discovery."""

    instances = []

    def __init__(self, family=None, type=None, proto=None, **kw):
        self.family, self.type, self.proto = family, type, proto
        self.opts = []
        self.bound = None
        self.closed = False
        FakeSocket.instances.append(self)

    def setsockopt(self, level, opt, val):
        self.opts.append((level, opt, val))

    def bind(self, addr):
        self.bound = addr

    def setblocking(self, flag):
        pass

    def fileno(self):
        return -1

    def close(self):
        self.closed = True


def fake_socket_module():
    m = types.SimpleNamespace()
    for n in ("AF_INET", "SOCK_DGRAM", "IPPROTO_UDP", "SOL_SOCKET", "SO_BROADCAST"):
        setattr(m, n, getattr(_real_socket, n))
    m.socket = FakeSocket
    return m


class SimNet:
    """Simulated network.  `script` is a list of connect outcomes consumed in
    order: ("refuse" | "unreachable" | "timeout" | "gaierror", latency) | ("accept", latency
    [, fail_write_at]).  When exhausted, `default` applies."""

    def __init__(self, log=None):
        self.loop = None
        self.log = log or EventLog()
        self._ids = itertools.count(1)
        self.conns = []
        self.script = []
        self.dns = {}          # host name -> current address of the console
        self.gone = set()      # addresses at which nobody answers any more
        self.default = ("accept", 0.0)
        self.on_data = None
        self.on_open = None
        self.on_close = None
        self.on_udp = None
        self.udp = []
        self.max_open = 0

    async def connect(self, loop, protocol_factory, host, port):
        act = self.script.pop(0) if self.script else self.default
        kind, lat = act[0], act[1]
        # name resolution: `dns` maps a host name to the address the console has at present;
        # an address nobody has any more (`gone`) refuses every attempt
        dns = getattr(self, "dns", None) or {}
        addr = dns.get(host, host)
        if addr in getattr(self, "gone", ()):
            kind = "refuse"
        self.log.add("NET.connect_attempt", outcome=kind, latency=lat, host=host,
                     port=port, **({"resolved": addr} if addr != host else {}))
        if lat:
            await asyncio.sleep(lat)
        else:
            await asyncio.sleep(0)
        if kind == "refuse":
            raise ConnectionRefusedError(111, "Connect call failed (simulated)")
        if kind == "unreachable":
            raise OSError(113, "No route to host (simulated)")
        if kind == "timeout":
            raise TimeoutError(110, "Connection timed out (simulated)")
        if kind == "gaierror":
            import socket as _socket
            raise _socket.gaierror(-2, "Name or service not known (simulated)")
        conn = Conn(self, host, port)
        conn.addr = addr
        self.conns.append(conn)
        proto = protocol_factory()
        tr = SimTransport(loop, proto, conn)
        conn.transport = tr
        if len(act) > 2 and act[2]:
            conn.fail_write_at = act[2]
        if len(act) > 3 and act[3]:
            conn.fail_exc = act[3]
        self.log.add("NET.open", conn=conn.id, host=host, port=port)
        self.max_open = max(self.max_open, len(self.open_conns()))
        proto.connection_made(tr)
        if self.on_open:
            self.on_open(conn)
        return tr, proto

    def udp_endpoint(self, loop, protocol_factory, sock):
        proto = protocol_factory()
        tr = SimDatagramTransport(loop, proto, self, sock)
        self.udp.append(tr)
        self.log.add("UDP.open", port=getattr(sock, "bound", None),
                     opts=list(getattr(sock, "opts", [])))
        loop.call_soon(proto.connection_made, tr)
        return tr, proto

    def open_conns(self):
        return [c for c in self.conns if c.open]

    def current(self):
        oc = self.open_conns()
        return oc[-1] if oc else None


def new_world():
    """Fresh (loop, net, log); the loop is installed as current."""
    log = EventLog()
    net = SimNet(log)
    loop = SimLoop(net, log)
    asyncio.set_event_loop(loop)
    return loop, net, log


def close_world(loop):
    try:
        # cancel leftovers so that no "Task was destroyed" noise leaks
        for t in asyncio.all_tasks(loop):
            t.cancel()
        try:
            loop.run_until_complete(asyncio.sleep(0))
        except BaseException:
            pass
    finally:
        asyncio.set_event_loop(None)
        loop.close()


def run_world(main_factory):
    """Run `await main_factory(loop, net, log)` in a fresh world."""
    loop, net, log = new_world()
    try:
        return loop.run_until_complete(main_factory(loop, net, log)), log
    finally:
        close_world(loop)
