"""SimNet fidelity cross-check (DESIGN.md §2.2): the same scripted scenario is
run once on the simulated network (virtual time) and once on REAL loopback TCP
with a stock asyncio event loop and an asyncio.start_server console.  The
client-visible sequence (connection notifications, delivered messages, outcome
of send calls) and what the server saw (connections, frames) must agree.
A mismatch means SimNet is wrong: the caller turns it into *inconclusive*."""

from __future__ import annotations

import asyncio
import socket
import struct

import pyairtouch.comms.socket as psock

from . import frames as F
from . import harness as H
from . import refproto as R
from . import sockscript as S
from .sockworld import SockWorld, quiesce

GEN = 4

# step kinds: ("srv_send", hexbytes) ("srv_send_bytewise", hex) ("srv_fin",) ("srv_rst",)
#             ("send", kind, serial) ("wait", seconds) ("srv_down",) ("srv_up",)
SCENARIOS = {
    "plain_delivery": [("wait", 0.2), ("srv_send", "P1"), ("wait", 0.2), ("send", "zone_ctrl", 1),
                       ("wait", 0.2)],
    "refused_then_up": [("srv_down",), ("wait", 0.5), ("send", "ac_ctrl", 2), ("srv_up",),
                        ("wait", 2.6), ("srv_send", "P1"), ("wait", 0.2)],
    "peer_fin": [("wait", 0.2), ("srv_fin",), ("wait", 0.5), ("srv_send", "P1"), ("wait", 0.2)],
    "peer_rst": [("wait", 0.2), ("srv_rst",), ("wait", 0.5), ("srv_send", "P1"), ("wait", 0.2)],
    "garbage": [("wait", 0.2), ("srv_send", "00ff13377f55aa5511"), ("wait", 0.5),
                ("srv_send", "P1"), ("wait", 0.2)],
    "bad_crc": [("wait", 0.2), ("srv_send", "BADCRC"), ("wait", 0.5), ("srv_send", "P1"),
                ("wait", 0.2)],
    "bytewise": [("wait", 0.2), ("srv_send_bytewise", "P1"), ("wait", 0.3), ("srv_send", "P2"),
                 ("wait", 0.2)],
    "two_frames_one_segment": [("wait", 0.2), ("srv_send", "P1P2"), ("wait", 0.3)],
    # (a send that races with the peer's reset/close: whether the peer still reads those
    # bytes is up to the peer; only the client-visible sequence is compared)
    "write_to_dead_peer": [("wait", 0.2), ("srv_rst",), ("send", "zone_ctrl", 3), ("wait", 0.6),
                           ("send", "ac_ctrl", 4), ("wait", 0.3)],
    "send_after_rst_noticed": [("wait", 0.2), ("srv_rst",), ("wait", 0.4),
                               ("send", "zone_ctrl", 10), ("wait", 0.3)],
    "send_after_fin_noticed": [("wait", 0.2), ("srv_fin",), ("wait", 0.4),
                               ("send", "zone_ctrl", 11), ("wait", 0.3)],
    "fin_then_send_same_instant": [("wait", 0.2), ("srv_fin",), ("send", "zone_ctrl", 5),
                                   ("send", "ac_ctrl", 6), ("wait", 0.6), ("srv_send", "P1"),
                                   ("wait", 0.2)],
    "send_while_down_then_up": [("srv_down",), ("wait", 0.3), ("send", "zone_ctrl", 7),
                                ("send", "quick_timer", 8), ("send", "ac_ctrl", 9), ("srv_up",),
                                ("wait", 2.5)],
    "truncated_then_fin": [("wait", 0.2), ("srv_send", "TRUNC"), ("wait", 0.2), ("srv_fin",),
                           ("wait", 0.5), ("srv_send", "P1"), ("wait", 0.2)],
}


def _bytes(tag):
    out = b""
    t = tag
    while t:
        if t.startswith("P1"):
            out += F.probe_frame(GEN, 41)
            t = t[2:]
        elif t.startswith("P2"):
            out += F.probe_frame(GEN, 42)
            t = t[2:]
        elif t.startswith("BADCRC"):
            raw = bytearray(F.probe_frame(GEN, 43))
            raw[-1] ^= 0x5A
            out += bytes(raw)
            t = t[6:]
        elif t.startswith("TRUNC"):
            out += F.probe_frame(GEN, 44)[:5]
            t = t[5:]
        else:
            return bytes.fromhex(tag)
    return out


class Trace:
    def __init__(self):
        self.conn = []       # connection notifications
        self.msgs = []       # delivered messages (repr)
        self.sends = []      # (serial, outcome)
        self.server = []     # per accepted connection: list of payload identities

    def view(self):
        # consecutive duplicate "disconnected" notifications are collapsed: two
        # concurrent resets legitimately both report it
        conn = []
        for c in self.conn:
            if not (conn and conn[-1] is False and c is False):
                conn.append(c)
        return {"conn": conn, "msgs": self.msgs, "sends": sorted(self.sends),
                "server_conns": len(self.server),
                "server_frames": sorted(x for c in self.server for x in c)}


def _frames_ids(raw):
    frames, rest, err = R.parse_stream(GEN, raw)
    return [(f.typ, bytes(f.data).hex()) for f in frames if f.crc_ok]


async def _client_steps(sock, steps, tr, *, wait, srv):
    sock.subscribe_on_connection_changed(_conn_cb(tr))
    sock.subscribe_on_message_received(_msg_cb(tr))
    await sock.open_socket()
    for st in steps:
        k = st[0]
        if k == "wait":
            await wait(st[1])
        elif k == "send":
            msg, typ, data = S.make_message(GEN, st[1], st[2])
            try:
                await sock.send(msg, psock.RETRY_IDEMPOTENT)
                tr.sends.append((st[2], "ok"))
            except Exception as e:
                tr.sends.append((st[2], type(e).__name__))
        else:
            await srv(st)
    await sock.close()


def _conn_cb(tr):
    async def cb(*, connected):
        tr.conn.append(connected)
    return cb


def _msg_cb(tr):
    async def cb(hdr, msg):
        tr.msgs.append(repr(msg))
    return cb


def run_sim(name):
    steps = SCENARIOS[name]
    tr = Trace()

    async def main(loop, net, log):
        w = SockWorld(GEN, loop, net, log, host="127.0.0.1")
        sock = H.new_socket(GEN, loop, "127.0.0.1")
        down = [False]
        if steps[0][0] == "srv_down":
            net.default = ("refuse", 0.0)

        async def srv(st):
            k = st[0]
            c = net.current()
            if k == "srv_down":
                net.default = ("refuse", 0.0)
            elif k == "srv_up":
                net.default = ("accept", 0.0)
            elif c is None:
                return
            elif k == "srv_send":
                c.transport.peer_data(_bytes(st[1]))
            elif k == "srv_send_bytewise":
                for b in _bytes(st[1]):
                    c.transport.peer_data(bytes([b]))
                    await asyncio.sleep(0.001)
            elif k == "srv_fin":
                c.transport.peer_eof()
            elif k == "srv_rst":
                c.transport.peer_reset()

        await _client_steps(sock, steps, tr, wait=asyncio.sleep, srv=srv)
        await quiesce(loop)
        for c in net.conns:
            tr.server.append(_frames_ids(bytes(c.received)))

    H.run(main)
    return tr.view()


def run_real(name, timeout=20.0):
    steps = SCENARIOS[name]
    tr = Trace()

    async def main():
        loop = asyncio.get_running_loop()
        state = {"server": None, "conns": [], "port": None}

        async def on_client(reader, writer):
            rec = {"reader": reader, "writer": writer, "data": bytearray()}
            state["conns"].append(rec)
            try:
                while True:
                    d = await reader.read(4096)
                    if not d:
                        break
                    rec["data"] += d
            except Exception:
                pass

        async def start():
            state["server"] = await asyncio.start_server(on_client, "127.0.0.1",
                                                         state["port"] or 0)
            state["port"] = state["server"].sockets[0].getsockname()[1]

        async def stop():
            if state["server"] is not None:
                state["server"].close()   # stop listening (3.12: wait_closed would also wait
                state["server"] = None    # for the accepted connections: not wanted here)
                await asyncio.sleep(0)

        await start()
        if steps[0][0] == "srv_down":
            await stop()
        sock = H.new_socket(GEN, loop, "127.0.0.1")
        sock.port = state["port"]

        async def srv(st):
            k = st[0]
            if k == "srv_down":
                await stop()
                return
            if k == "srv_up":
                await start()
                return
            live = [c for c in state["conns"] if not c["writer"].is_closing()]
            if not live:
                return
            c = live[-1]
            w = c["writer"]
            if k == "srv_send":
                w.write(_bytes(st[1]))
                await w.drain()
            elif k == "srv_send_bytewise":
                s = w.get_extra_info("socket")
                s.setsockopt(socket.IPPROTO_TCP, socket.TCP_NODELAY, 1)
                for b in _bytes(st[1]):
                    w.write(bytes([b]))
                    await w.drain()
                    await asyncio.sleep(0.005)
            elif k == "srv_fin":
                w.close()
            elif k == "srv_rst":
                s = w.get_extra_info("socket")
                s.setsockopt(socket.SOL_SOCKET, socket.SO_LINGER, struct.pack("ii", 1, 0))
                w.transport.abort()

        await _client_steps(sock, steps, tr, wait=asyncio.sleep, srv=srv)
        await asyncio.sleep(0.2)
        for c in state["conns"]:
            tr.server.append(_frames_ids(bytes(c["data"])))
        await stop()
        for c in state["conns"]:
            c["writer"].close()

    asyncio.run(asyncio.wait_for(main(), timeout))
    return tr.view()


CLIENT_ONLY = {"write_to_dead_peer", "fin_then_send_same_instant"}


def cross_check(name):
    """Returns (equal, sim_view, real_view)."""
    sim = run_sim(name)
    real = run_real(name)
    if name in CLIENT_ONLY:
        for v in (sim, real):
            v.pop("server_frames")
    return sim == real, sim, real


if __name__ == "__main__":
    import json
    import sys
    bad = 0
    for n in (sys.argv[1:] or SCENARIOS):
        ok, a, b = cross_check(n)
        print(("OK  " if ok else "DIFF"), n)
        if not ok:
            bad += 1
            print("   sim ", json.dumps(a)[:600])
            print("   real", json.dumps(b)[:600])
    sys.exit(1 if bad else 0)
