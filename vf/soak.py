"""Soak workload: ONE long random session through the public API in which everything the
directed checks vary separately happens together - random installation and handshake-time
state, status pushes and exact repeats, public commands, link faults of every kind with
recovery, idle time up to several heartbeat periods, raising subscribers, shutdown and
re-init of the same object - while a set of monitors that hold at ALL times watches:

  C07  never more than one open connection; no unhandled exception / dead background task;
       after a fault and the recovery time the client is connected again
  C08  the console answers every heartbeat: a client-initiated close needs a cause (a fault or
       an outage within the last 331 s, or a shutdown)
  C01  bytes on every connection are whole frames from 0xB0 with a right check value
  C02  no request frame (exact bytes incl. packet id) is on the wire twice within 200 frames;
       no control frame more than 1 + 2 times
  C10  at every quiescent point the getters equal the reference model fed the delivered bytes
  C12  an exact repeat of the previous frame causes no notification
  C14  the connection after a loss starts with both refresh requests; the model converges
  C04/C11  a refused call raises ValueError and sends nothing; an accepted one sends exactly
       one frame that reads as intended
  C15  after shutdown(): client census empty, no activity during idle time, re-init rebuilds

Each property's check runs soak cases and keeps the violations filed under its own id.
Everything is decided on virtual time; the run is a pure function of (gen, seed, n_ops)."""

from __future__ import annotations

import asyncio
import random

from . import apiworld as AW
from . import cmds as K
from . import console as C
from . import frames as F
from . import harness as H
from . import refmodel as RM
from . import refproto as R
from . import sockscript as S
from .sockworld import quiesce

REQUEST_KINDS = {"version_request", "names_request", "ability_request", "ac_status_request",
                 "timer_status_request", "zone_status_request", "error_request"}


def run(gen, seed, n_ops=60):
    """Returns {"viol": {pid: [violation]}, "obs": {...}, "status": str}."""
    from .props import c10
    rnd = random.Random(f"soak/{gen}/{seed}")
    V = {}
    obs = {}
    out = {}

    def v(pid, mech, **d):
        V.setdefault(pid, []).append({"mechanism": "soak:" + mech,
                                      "detail": dict(d, gen=gen, soak_seed=seed,
                                                     op_index=out.get("op"))})

    def bump(k, n=1):
        obs[k] = obs.get(k, 0) + n

    async def main(loop, net, log):
        inst = c10.installation(gen, rnd)
        duo = rnd.random() < 0.35
        w = AW.ModelWorld(gen, loop, net, log, inst, C.Knobs(), host="10.0.0.1" if duo else None)
        other = None
        other_t0 = []
        if duo:
            # a second client of either generation lives in the same process, with its own
            # console: whatever happens to one of them is none of the other's business
            g2 = rnd.choice((4, 5))
            other = AW.ModelWorld(g2, loop, net, log, c10.installation(g2, rnd), C.Knobs(),
                                  host="10.0.0.2")
            bump("sessions_with_a_second_client")
        # in some sessions a few of the application's subscribers take their time: the
        # receive loop is held up while commands, faults, heartbeats and idle time go on
        slow = random.Random(f"soak-slow/{gen}/{seed}").random() < 0.25
        if slow:
            bump("sessions_with_slow_subscribers")

        async def settle():
            await quiesce(loop)
            if slow:
                await asyncio.sleep(20.0)
                await quiesce(loop)
        causes = []          # instants at which a fault / outage was caused or ended
        shutdown_spans = []  # (t0, t1) of shutdown() calls
        subs = []
        state = {"last_push": None, "last_push_conn": None}

        def attach():
            subs.clear()
            at = w.at

            def mk(name, attach_fn):
                s = H.Sub(log, name, raises=rnd.random() < 0.2, hashv=rnd.getrandbits(20))
                attach_fn(s)
                subs.append(s)
            mk("at", at.subscribe)
            for ac in at.air_conditioners:
                mk(f"ac{ac.ac_id}", ac.subscribe)
                mk(f"acstate{ac.ac_id}", ac.subscribe_ac_state)
                for z in ac.zones:
                    mk(f"zone{z.zone_id}", z.subscribe)
            if slow:
                srnd = random.Random(f"soak-slow-subs/{gen}/{seed}/{len(subs)}")
                for sub in srnd.sample(subs, min(3, len(subs))):
                    sub.delay = srnd.choice([0.01, 0.1, 0.5])

        def compare(pid, where):
            w.feed()
            dd = RM.diff(w.model.expected(), H.snapshot(w.at))
            bump("model_comparisons")
            if dd:
                path, ev, gv = dd[0]
                v(pid, f"getters-differ-from-latest-report:{path.split('.')[-1]}",
                  where=where, path=path, expected=ev, got=gv)
                return False
            return True

        life = {"t0": 0.0}

        async def start_life(first):
            ok = await w.init_and_sync()
            life["t0"] = loop.time()   # heartbeats of this life: t0 + 300 k
            await settle()
            if ok is not True:
                v("C09" if first else "C15", "init-fails-against-answering-console", ret=ok)
                return False
            if not compare("C10" if first else "C15", "after init"):
                return False
            attach()
            return True

        if not await start_life(True):
            return
        if other is not None:
            # (the second client comes up after the first)
            if await other.init_and_sync() is not True:
                v("C09", "second-client-init-fails")
                return
            other_t0.append(loop.time())
        lives = 1
        for i in range(n_ops):
            out["op"] = i
            if V:
                break
            if other is not None and i % 7 == 3 and other.conn() is not None:
                await other.inject(c10.make_frame(other.gen, rnd, other, None, obs))
                other.feed()
                dd = RM.diff(other.model.expected(), H.snapshot(other.at))
                if dd or other.conn() is None:
                    v("C10", "second-client-disturbed:" + (dd[0][0].split(".")[-1] if dd
                                                           else "connection-lost"),
                      diff=dd[:2])
                    break
            c = w.conn()
            op = rnd.choices(["push", "repeat", "cmd", "fault", "adv", "cycle", "split_push"],
                             [26, 8, 25, 14, 18, 3 if lives < 3 and not duo else 0, 6])[0]
            if c is None and op in ("push", "repeat", "cmd", "split_push"):
                op = "adv"
            if op == "split_push":
                # a status frame trickles in while the application sends a command
                import pyairtouch.api as api
                raw = c10.make_frame(gen, rnd, w, None, obs)
                k = rnd.randint(1, len(raw) - 1)
                state["last_push"] = None
                n0 = len(w.console.frames)
                # (the console must not answer the command into the middle of its own frame)
                w.console.knobs.apply_commands = False
                c.transport.peer_data(raw[:k])
                if rnd.random() < 0.5:
                    await asyncio.sleep(0)
                await H.probe(log, "set_power", w.at.air_conditioners[0].set_power(
                    api.AcPowerControl.TURN_ON))
                c.transport.peer_data(raw[k:])
                await quiesce(loop)
                # (judged at this very instant: during the settling time of a session with
                # slow subscribers a heartbeat whose answer was lost with an earlier
                # connection may legitimately reset this one)
                kept = w.conn() is c
                await settle()
                w.console.knobs.apply_commands = True
                got = [cmd["kind"] for (t, cc, f, cmd) in w.console.frames[n0:]
                       if cmd["kind"] not in REQUEST_KINDS]
                if not kept or got != ["ac_control"]:
                    v("C13", "frame-or-command-lost-when-sending-while-receiving",
                      connection_kept=kept, commands_seen=got, cut=k, frame=raw)
                bump("sends_while_receiving")
                compare("C10", "after split push")
                continue
            if op == "push" and subs and rnd.random() < 0.15:
                # a subscriber that submits a command from inside its callback
                import pyairtouch.api as api
                sub = rnd.choice(subs)
                fired = []

                async def act(fired=fired):
                    fired.append(loop.time())
                    await w.at.air_conditioners[0].set_power(api.AcPowerControl.TURN_OFF)
                sub.action = act
                n0 = len(w.console.frames)
                for _ in range(3):
                    if fired:
                        break
                    await w.inject(c10.make_frame(gen, rnd, w, None, obs))
                    await settle()
                state["last_push"] = None
                sub.action = None
                if fired:
                    got = [cmd["kind"] for (t, cc, f, cmd) in w.console.frames[n0:]
                           if cmd["kind"] not in REQUEST_KINDS]
                    if got != ["ac_control"]:
                        v("C01", "command-submitted-inside-a-callback-not-sent-exactly-once",
                          commands_seen=got)
                    bump("commands_from_callbacks")
                compare("C10", "after callback command")
                continue
            if op == "push":
                raw = (c10.one_field_frame(gen, rnd, w, obs) if rnd.random() < 0.3
                       else c10.make_frame(gen, rnd, w, None, obs))
                await w.inject(raw)
                await settle()
                state["last_push"], state["last_push_conn"] = raw, c.id
                compare("C10", "after push")
                bump("pushes")
            elif op == "repeat":
                if state["last_push"] is None or state["last_push_conn"] != c.id:
                    continue
                mark = log.mark()
                await w.inject(state["last_push"])
                await settle()
                changes = w.feed()
                calls = [d["name"] for _, _, k, d in log.since(mark) if k == "SUB.call"]
                if any(ch[4] is not False for ch in changes):
                    # (a frame that reports one entity twice is not an identical report the
                    # second time round)
                    bump("repeats_not_identical_per_entity")
                elif calls:
                    v("C12", "subscriber-called-for-an-exact-repeat", calls=calls[:6],
                      frame=state["last_push"])
                bump("exact_repeats")
                compare("C10", "after repeat")
            elif op == "cmd":
                calls = K.gen_calls(gen, w.inst, rnd, 1)
                if not calls or "timer" in calls[0][2] or calls[0][0] == "at":
                    # (timer calls need the reported timers; the update check is a version
                    # request with a retry budget and cannot be told from a heartbeat)
                    continue
                call = calls[0]
                if call[0] == "zone":
                    acs = w.at.air_conditioners
                    if not any(z.zone_id == call[1][1] for z in acs[call[1][0]].zones):
                        continue
                state["last_push"] = None
                n0 = len(w.console.frames)
                try:
                    coro = K.perform(w.at, call)
                except Exception as e:  # noqa: BLE001
                    r = e
                else:
                    r = await H.probe(log, call[2], coro)
                await settle()
                frames = [(f, cmd) for (t, cc, f, cmd) in w.console.frames[n0:]
                          if cmd["kind"] not in REQUEST_KINDS]
                exc = r if isinstance(r, Exception) else None
                if K.should_refuse(gen, w.inst, call):
                    if not isinstance(exc, ValueError):
                        v("C11", f"invalid-request-not-refused:at{gen}.{call[2]}", call=call,
                          outcome=repr(exc))
                    if frames:
                        v("C11", "refused-call-transmitted-a-frame", call=call)
                    bump("refusals")
                elif K.admissible(gen, w.inst, call):
                    if exc is not None:
                        v("C11", f"valid-request-raised:at{gen}.{call[2]}", call=call,
                          exc=repr(exc))
                    elif len(frames) != 1:
                        v("C11", f"accepted-call-did-not-produce-one-frame:at{gen}.{call[2]}",
                          call=call, frames=len(frames))
                    else:
                        f, cmd = frames[0]
                        for mech, d in K.judge_frame(gen, w.inst, call, f, cmd, {}):
                            if not mech.startswith("other-timer"):
                                v("C04", f"command-{mech}:at{gen}.{call[2]}", call=call,
                                  frame=f.raw, **d)
                        bump("commands_judged")
                compare("C10", "after command")
            elif op == "fault":
                if c is None:
                    continue
                state["last_push"] = None
                kind = rnd.choice(["fin", "rst", "garbage", "badcrc", "trunc_fin", "undecodable",
                                   "wfail"])
                refuse = rnd.choice([0, 0, 1, 2])
                lat = rnd.choice([0.0, 0.0, 0.5, 2.5])
                for _ in range(refuse):
                    net.script.append((rnd.choice(["refuse", "unreachable", "timeout"]), 0.0))
                net.script.append(("accept", lat))
                causes.append(loop.time())
                mloss = log.mark()
                # the console's state moves on unreported (as if while the link is down): the
                # refresh after the reconnection has to pick it up
                if rnd.random() < 0.5:
                    for a in w.inst["acs"]:
                        a["status"] = c10.rand_ac(gen, rnd, a["status"]["ac"])
                        a["status"]["error"] = 0
                tr = c.transport
                # (not when a heartbeat is due within the next seconds: its answer would queue
                # up behind the fault in a stream nobody reads any more, and the version it
                # carries would legitimately never be seen)
                phase = (loop.time() - life["t0"]) % 300.0
                if slow and rnd.random() < 0.6 and 0.01 < phase < 295.0:
                    # the fault finds the receive loop busy in a subscriber (with a frame that
                    # makes the client ask nothing: an answer that arrives while the loop is
                    # busy is lost with the connection, which no property forbids)
                    tr.peer_data(c10.make_frame(gen, rnd, w, None, obs, kinds=["zone", "timer"]))
                    await asyncio.sleep(0)
                    await asyncio.sleep(0)
                    bump("faults_while_a_subscriber_was_busy")
                if kind == "fin":
                    tr.peer_eof()
                elif kind == "rst":
                    tr.peer_reset()
                elif kind == "garbage":
                    tr.peer_data(bytes(range(1, 41)))   # more than a header, no frame prefix
                elif kind == "badcrc":
                    raw = bytearray(F.probe_frame(gen, 9))
                    raw[-1] ^= 0x5A
                    tr.peer_data(bytes(raw))
                elif kind == "trunc_fin":
                    tr.peer_data(F.probe_frame(gen, 9)[:5])
                    await settle()
                    tr.peer_eof()
                elif kind == "undecodable":
                    body = R.ext(0xFF30, b"\x00") if gen == 4 else R.ext(0xFF10, b"")
                    tr.peer_data(R.frame(gen, R.ADDR_CLIENT, 0x90, 7, 0x1F, body))
                else:
                    import pyairtouch.api as api
                    c.fail_write_at = c.nwrites + rnd.randint(1, 3)
                    await H.probe(log, "set_power", w.at.air_conditioners[0].set_power(
                        api.AcPowerControl.TURN_ON))
                await settle()
                await asyncio.sleep(2.0 * refuse + lat + 2.5)
                await settle()
                causes.append(loop.time())
                c2 = w.conn()
                bump("faults")
                if c2 is None or c2.id == c.id or len(
                        [x for x in net.open_conns() if not duo or x.host == w.host]) != 1:
                    v("C07", "not-connected-again-after-recovery-time", fault=kind,
                      refuse=refuse, latency=lat, open=[x.id for x in net.open_conns()])
                    break
                opens = [(sq, t) for sq, t, k, d in log.since(mloss)
                         if k == "NET.open" and d["conn"] == c2.id]
                at_open = [d["cmd"]["kind"] for sq, t, k, d in log.since(opens[-1][0])
                           if k == "CON.frame" and d["conn"] == c2.id
                           and abs(t - opens[-1][1]) < 1e-9]
                missing = [k for k in ("ac_status_request", "zone_status_request")
                           if k not in at_open]
                if missing:
                    v("C14", "refresh-request-missing-at-reconnect", missing=missing,
                      seen=at_open[:6], fault=kind)
                else:
                    bump("refreshes_at_reconnect")
                compare("C14", "after reconnection")
            elif op == "adv":
                state["last_push"] = None
                await asyncio.sleep(rnd.choice([0.001, 0.5, 2.0, 5.0, 31.0, 100.0, 299.0, 301.0,
                                                400.0, 700.0]))
                await settle()
                compare("C10", "after idle time")
            else:  # cycle
                state["last_push"] = None
                phase = (loop.time() - life["t0"]) % 300.0
                if slow and (phase < 1.0 or phase > 299.0):
                    # (a heartbeat answer that changes the version is being handed to a slow
                    # subscriber right now: let the application's own callback finish first)
                    await asyncio.sleep(3.0)
                    await settle()
                t0 = loop.time()
                await w.at.shutdown()
                for _ in range(10):
                    await asyncio.sleep(0)
                tasks, timers, unknown = H.client_census(loop, {asyncio.current_task()})
                shutdown_spans.append((t0, loop.time()))
                if tasks or timers:
                    v("C15", "task-or-timer-left-when-shutdown-returns", tasks=tasks,
                      timers=timers)
                mark = log.mark()
                await asyncio.sleep(rnd.choice([0.5, 3.0, 400.0]))
                await settle()
                late = [k for _, _, k, d in log.since(mark)
                        if k in ("NET.connect_attempt", "NET.write", "NET.open", "SUB.call")]
                if late or net.open_conns():
                    v("C15", "activity-or-open-connection-after-shutdown", events=late[:5],
                      open=[x.id for x in net.open_conns()])
                net.script.clear()
                w.model = RM.RefModel(gen)
                w._bufs.clear()
                w.feed()
                w.model = RM.RefModel(gen)
                lives += 1
                bump("shutdown_reinit_cycles")
                if not await start_life(False):
                    break
        out["end"] = loop.time()
        # ---- whole-run monitors
        if net.max_open > (2 if duo else 1):
            v("C07", "two-connections-open-at-once", max_open=net.max_open)
        bad = [e for e in log.events if e[2] == "LOOP.unhandled" or (
            e[2] == "LOG.error" and "Unhandled exception in background task" in e[3]["msg"])]
        if bad:
            v("C07", "unhandled-exception-or-dead-background-task", events=H.jsonable(bad[:2]))
        for _, t, k, d in log.events:
            if k == "NET.close" and not d["fault"]:
                if any(a - 1e-9 <= t <= b + 1e-9 for a, b in shutdown_spans):
                    continue
                if not any(t - 331.0 <= x <= t + 1e-9 for x in causes):
                    v("C08", "connection-reset-without-cause-while-heartbeats-are-answered",
                      at=t, causes=causes[-4:])
        n2 = sum(1 for e in log.events if e[2] == "LOG.error"
                 and "already waiting for incoming data" in str(e[3].get("exc")))
        if n2:
            bump("receive_loop_outlived_its_connection", n2)   # DESIGN §9, observation
        host_of = {d["conn"]: d["host"] for _, _, k, d in log.events if k == "NET.open"}
        by = {cid: b for cid, b in S.frames_by_conn(gen, log).items()
              if not duo or host_of.get(cid) == "10.0.0.1"}
        if duo:
            by.update({cid: b for cid, b in S.frames_by_conn(other.gen, log).items()
                       if host_of.get(cid) == "10.0.0.2"})
        seq = []
        for cid, b in sorted(by.items()):
            faulted = any(wr[3] for wr in b["writes"])
            if b["err"] or (b["rest"] and not faulted):
                v("C01", "bytes-on-a-connection-are-not-whole-frames", conn=cid)
            for inf in b["frames"]:
                f = inf["frame"]
                if not f.crc_ok or f.frm != R.ADDR_CLIENT or f.to != R.expected_to_address(f):
                    v("C01", "frame-with-wrong-address-or-check-value", frame=f.raw)
                seq.append(f)
        bump("frames_on_wire", len(seq))
        last_at = {}
        count = {}
        for idx, f in enumerate(seq):
            try:
                kind = R.read_command(f)["kind"]
            except R.Reject:
                kind = "?"
            prev = last_at.get(f.raw)
            if prev is not None and idx - prev < 200:
                count[f.raw] = count.get(f.raw, 1) + 1
                if kind in REQUEST_KINDS:
                    v("C02", "request-frame-on-the-wire-twice", kind=kind, frame=f.raw)
                elif count[f.raw] > 3:
                    v("C02", "control-frame-on-the-wire-more-than-three-times", frame=f.raw)
            else:
                count[f.raw] = 1
            last_at[f.raw] = idx
        if other is not None:
            # its heartbeat: the handshake's version request and one every 300 s ever since
            t0b = other_t0[0]
            want = 2 + int((loop.time() - t0b) // 300.0)
            got = sum(1 for (t, cc, f, cmd) in other.console.frames
                      if cmd["kind"] == "version_request")
            if got != want and abs(((loop.time() - t0b) % 300.0)) > 1e-6:
                v("C08", "second-client-heartbeats-not-every-300s", seen=got, expected=want,
                  monitoring_since=t0b, now=loop.time())
            # the second client was left alone all the time: one connection, still in sync
            n_open = sum(1 for _, _, k, d in log.events if k == "NET.open"
                         and d["host"] == "10.0.0.2")
            other.feed()
            dd = RM.diff(other.model.expected(), H.snapshot(other.at))
            if n_open != 1 or dd:
                v("C07" if n_open != 1 else "C10", "second-client-disturbed-by-the-first",
                  connections=n_open, diff=dd[:2])
            await other.at.shutdown()
        try:
            await w.at.shutdown()
        except Exception as e:  # noqa: BLE001
            v("C15", "shutdown-raises", exc=repr(e))

    _, log, st = H.run(main)
    if st != "ok":
        v("C07", "session-" + st, status=st)
    for pid in V:
        for x in V[pid]:
            x["log"] = H.log_slice(log, 30)
    return {"viol": V, "obs": obs, "status": st}


def cases(tier, seed, pid, n_quick=30, n_thorough=4000):
    rnd = random.Random(f"soak-cases/{pid}/{tier}/{seed}")
    n = n_quick if tier == "quick" else n_thorough
    for _ in range(n):
        yield {"k": "soak", "gen": rnd.choice((4, 5)), "soak_seed": rnd.randrange(1 << 30),
               "n_ops": rnd.choice([30, 60, 120])}


def run_case(case, pid):
    """A soak case as seen by the check of property `pid`."""
    r = run(case["gen"], case["soak_seed"], case["n_ops"])
    viol = r["viol"].get(pid, [])
    other = sorted(p for p in r["viol"] if p != pid)
    obs = {"soak_" + k: n for k, n in r["obs"].items() if isinstance(n, int)}
    obs["soak_sessions"] = 1
    if other:
        # (reported by the check of that property when it runs the same soak family)
        obs["soak_sessions_with_findings_for_other_properties"] = 1
    return {"violations": H.cap(viol), "evals": 1, "decided": 1, "obs": obs,
            "sample": {"soak": case}}
