"""Public control calls: generation, execution against an initialised client and
the expectation of what the single resulting frame must mean (C04, C11, C19)."""

from __future__ import annotations

import asyncio
import datetime
import math
import random

import pyairtouch.api as api

from . import apiworld as AW
from . import console as C
from . import harness as H
from . import refproto as R
from .sockworld import quiesce

KEEP = R.KEEP
MODES = ["AUTO", "HEAT", "DRY", "FAN", "COOL"]
FANS4 = ["AUTO", "QUIET", "LOW", "MEDIUM", "HIGH", "POWERFUL", "TURBO"]
FANS5 = FANS4 + ["INTELLIGENT_AUTO"]
POWERS4 = ["TOGGLE", "TURN_OFF", "TURN_ON"]
POWERS5 = POWERS4 + ["SET_TO_AWAY", "SET_TO_SLEEP"]
_PWR = {"TOGGLE": "toggle", "TURN_OFF": "off", "TURN_ON": "on", "SET_TO_AWAY": "away",
        "SET_TO_SLEEP": "sleep"}


def make_installation(gen, rnd, *, modes=None, fans=None, ac_ids=None, sensors=None,
                      turbo=None, timers=None):
    """An installation with chosen AC ids and ability bitmaps."""
    n = len(ac_ids) if ac_ids else rnd.choice([1, 2, 3, 4])
    zp = tuple(rnd.randint(1, 4) for _ in range(n))
    total = sum(zp)
    if total > 16:
        zp = tuple([1] * n)
    inst = C.default_installation(gen, n, zp)
    ids = list(ac_ids) if ac_ids else sorted(rnd.sample(range(16 if gen == 5 else 4), n))
    fan_keys = [f.lower() for f in (FANS4 if gen == 4 else FANS5)]
    for i, a in enumerate(inst["acs"]):
        ab, st = a["ability"], a["status"]
        ab["ac"] = st["ac"] = ids[i]
        m = modes if modes is not None else rnd.getrandbits(5)
        f = fans if fans is not None else rnd.getrandbits(len(fan_keys))
        ab["modes"] = {k.lower(): bool(m >> j & 1) for j, k in enumerate(MODES)}
        ab["fans"] = {k: bool(f >> j & 1) for j, k in enumerate(fan_keys)}
        if gen == 4:
            ab["min_sp"], ab["max_sp"] = rnd.randint(14, 19), rnd.randint(27, 32)
        else:
            ab["min_cool"], ab["max_cool"] = rnd.randint(14, 19), rnd.randint(27, 31)
            ab["min_heat"], ab["max_heat"] = rnd.randint(15, 20), rnd.randint(28, 32)
        if rnd.random() < 0.12:
            # a unit that allows exactly one set-point (min == max)
            one = rnd.randint(18, 28)
            for k in ("min_sp", "max_sp", "min_cool", "max_cool", "min_heat", "max_heat"):
                if k in ab:
                    ab[k] = one
            st["mode_code"] = rnd.choice([0, 1, 2, 3, 4, 8, 9])
    inst["timers"] = {}
    for i, a in enumerate(inst["acs"]):
        aid = a["ability"]["ac"]
        if timers is not None:
            on_en, off_en = timers
        else:
            on_en, off_en = rnd.random() < 0.5, rnd.random() < 0.5
        inst["timers"][aid] = {
            "on": {"disabled": not on_en, "hour": rnd.randint(0, 23), "minute": rnd.randint(0, 59)},
            "off": {"disabled": not off_en, "hour": rnd.randint(0, 23),
                    "minute": rnd.randint(0, 59)}}
    for z in inst["zones"]:
        st = z["status"]
        st["sensor"] = (rnd.random() < 0.6) if sensors is None else sensors
        # a zone with a sensor may be under either control method when the call is made
        st["control_method"] = "temperature" if st["sensor"] and rnd.random() < 0.5 else "damper"
        if gen == 4:
            st["turbo_support"] = (rnd.random() < 0.5) if turbo is None else turbo
            if st["sensor"] and rnd.random() < 0.3:
                # a paired sensor that has no reading at the moment: still a sensor
                st["temp_raw11"] = None
    return inst


def expected_limits(gen, inst, ac_index):
    a = inst["acs"][ac_index]
    ab, st = a["ability"], a["status"]
    if gen == 4:
        return ab["min_sp"], ab["max_sp"]
    mode = st["mode_code"]
    if mode == 1:
        return ab["min_heat"], ab["max_heat"]
    if mode == 4:
        return ab["min_cool"], ab["max_cool"]
    return min(ab["min_heat"], ab["min_cool"]), max(ab["max_heat"], ab["max_cool"])


def gen_calls(gen, inst, rnd, n, temps=None):
    """Random public calls: (target kind, index, method, args)."""
    calls = []
    nacs = len(inst["acs"])
    zones_of = []
    z0 = 0
    for a in inst["acs"]:
        ab = a["ability"]
        zones_of.append(list(range(ab["start"], ab["start"] + ab["count"])))
    for _ in range(n):
        ai = rnd.randrange(nacs)
        c = rnd.random()
        if c < 0.12:
            calls.append(("ac", ai, "set_power", (rnd.choice(POWERS5),)))
        elif c < 0.26:
            calls.append(("ac", ai, "set_mode", (rnd.choice(MODES), rnd.random() < 0.3)))
        elif c < 0.40:
            calls.append(("ac", ai, "set_fan_speed", (rnd.choice(FANS5),)))
        elif c < 0.55:
            t = rnd.choice(temps) if temps else round(rnd.uniform(10, 38) * 20) / 20
            if not temps and rnd.random() < 0.25:
                t = int(t)   # a whole number of degrees given as a Python int
            calls.append(("ac", ai, "set_target_temperature", (t,)))
        elif c < 0.62:
            calls.append(("ac", ai, "set_quick_timer_duration",
                          (rnd.choice(["ON_TIMER", "OFF_TIMER"]),
                           rnd.choice([0, 59, 60, 61, 3599, 3600, 5400, 86399, 86400, 90000,
                                       172800, rnd.randint(0, 172800),
                                       # legal but never seen in practice: days and weeks
                                       255 * 3600 + 59 * 60, 256 * 3600, 300 * 3600 + 600,
                                       rnd.randint(256 * 3600, 10 ** 7),
                                       # fractions of a second (target - now())
                                       299.7, 7199.7, 86399.7, 59.999999,
                                       rnd.randint(0, 90000) + rnd.choice([0.2, 0.5, 0.7])]))))
        elif c < 0.69:
            calls.append(("ac", ai, "set_quick_timer_time",
                          (rnd.choice(["ON_TIMER", "OFF_TIMER"]), rnd.randint(0, 23),
                           rnd.randint(0, 59),
                           rnd.choice([None, None, (59, 999999, None, 0), (30, 0, 0, 0),
                                       (0, 0, rnd.choice([600, -300, 330, 765, -720]), 0),
                                       (rnd.randint(0, 59), 0, rnd.choice([60, -60, 840]), 1),
                                       (0, 1, None, 1)]))))
        elif c < 0.74:
            calls.append(("ac", ai, "clear_quick_timer", (rnd.choice(["ON_TIMER", "OFF_TIMER"]),)))
        elif c < 0.76:
            calls.append(("at", 0, "check_for_updates", ()))
        elif zones_of[ai]:
            zi = rnd.choice(zones_of[ai])
            d = rnd.random()
            if d < 0.3:
                calls.append(("zone", (ai, zi), "set_power", (rnd.choice(["OFF", "ON", "TURBO"]),)))
            elif d < 0.65:
                t = rnd.choice(temps) if temps else round(rnd.uniform(10, 35) * 20) / 20
                if not temps and rnd.random() < 0.25:
                    t = int(t)
                calls.append(("zone", (ai, zi), "set_target_temperature", (t,)))
            else:
                calls.append(("zone", (ai, zi), "set_damper_percentage",
                              (rnd.choice([-5, -1, 0, 1, 50, 99, 100, 101, 105,
                                           rnd.randint(0, 100), rnd.randint(0, 100),
                                           # out of range by a fraction (a slider's float)
                                           100.4, 100.9, -0.5, -0.25, 1e9, float("inf"),
                                           float("-inf")]),)))
    return calls


def _kw(base_cls, name, values):
    """The same call spelled with keyword arguments named as the documented (abstract) API
    names them."""
    import inspect
    params = [p for p in inspect.signature(getattr(base_cls, name)).parameters if p != "self"]
    return dict(zip(params, values))


def perform(at, call):
    kind, idx, method, args = call
    # a third of the calls pass their arguments by keyword (deterministic per call)
    if sum(map(ord, repr(call))) % 3 == 0 and kind in ("ac", "zone"):
        return _perform_kw(at, call)
    return _perform_pos(at, call)


def _perform_kw(at, call):
    kind, idx, method, args = call
    acs = at.air_conditioners
    A, Z = api.AirConditioner, api.Zone
    if kind == "ac":
        ac = acs[idx]
        if method == "set_power":
            return ac.set_power(**_kw(A, "set_power", [api.AcPowerControl[args[0]]]))
        if method == "set_mode":
            return ac.set_mode(**_kw(A, "set_mode", [api.AcMode[args[0]], args[1]]))
        if method == "set_fan_speed":
            return ac.set_fan_speed(**_kw(A, "set_fan_speed", [api.AcFanSpeed[args[0]]]))
        if method == "set_target_temperature":
            return ac.set_target_temperature(**_kw(A, "set_target_temperature", [args[0]]))
        if method == "set_quick_timer_duration":
            return ac.set_quick_timer(**_kw(A, "set_quick_timer", [
                api.AcTimerType[args[0]], _mkduration(args[1])]))
        if method == "set_quick_timer_time":
            return ac.set_quick_timer(**_kw(A, "set_quick_timer", [
                api.AcTimerType[args[0]], _mktime(args)]))
        if method == "clear_quick_timer":
            return ac.clear_quick_timer(**_kw(A, "clear_quick_timer", [api.AcTimerType[args[0]]]))
    ac = acs[idx[0]]
    z = next(z for z in ac.zones if z.zone_id == idx[1])
    if method == "set_power":
        return z.set_power(**_kw(Z, "set_power", [api.ZonePowerState[args[0]]]))
    if method == "set_target_temperature":
        return z.set_target_temperature(**_kw(Z, "set_target_temperature", [args[0]]))
    return z.set_damper_percentage(**_kw(Z, "set_damper_percentage", [args[0]]))


class _AppTime(datetime.time):
    """What an application's date library hands out: a datetime.time all the same."""


class _AppDuration(datetime.timedelta):
    """Likewise for durations (pendulum.Duration, pandas.Timedelta, ...)."""


def _mkduration(secs):
    if int(secs) % 7 == 0:
        return _AppDuration(seconds=secs)
    return datetime.timedelta(seconds=secs)


def _mktime(args):
    """A time of day: (type, hour, minute[, (second, microsecond, utc offset in minutes or None,
    fold)]). The console keeps wall-clock hours and minutes; what is requested is the hour and
    the minute of the value whatever else the time object carries."""
    if len(args) < 4 or args[3] is None:
        if (args[1] * 60 + args[2]) % 5 == 0:
            return _AppTime(args[1], args[2])
        return datetime.time(args[1], args[2])
    sec, usec, off, fold = args[3]
    tz = None if off is None else datetime.timezone(datetime.timedelta(minutes=off))
    return datetime.time(args[1], args[2], sec, usec, tzinfo=tz, fold=fold)


def _perform_pos(at, call):
    kind, idx, method, args = call
    if kind == "at":
        return at.check_for_updates()
    acs = at.air_conditioners
    if kind == "ac":
        ac = acs[idx]
        if method == "set_power":
            return ac.set_power(api.AcPowerControl[args[0]])
        if method == "set_mode":
            return ac.set_mode(api.AcMode[args[0]], power_on=args[1])
        if method == "set_fan_speed":
            return ac.set_fan_speed(api.AcFanSpeed[args[0]])
        if method == "set_target_temperature":
            return ac.set_target_temperature(args[0])
        if method == "set_quick_timer_duration":
            return ac.set_quick_timer(api.AcTimerType[args[0]],
                                      _mkduration(args[1]))
        if method == "set_quick_timer_time":
            return ac.set_quick_timer(api.AcTimerType[args[0]], _mktime(args))
        if method == "clear_quick_timer":
            return ac.clear_quick_timer(api.AcTimerType[args[0]])
    ac = acs[idx[0]]
    z = next(z for z in ac.zones if z.zone_id == idx[1])
    if method == "set_power":
        return z.set_power(api.ZonePowerState[args[0]])
    if method == "set_target_temperature":
        return z.set_target_temperature(args[0])
    return z.set_damper_percentage(args[0])


def zone_of(inst, idx):
    ai, zid = idx
    for z in inst["zones"]:
        if z["id"] == zid:
            return z
    return None


def admissible(gen, inst, call):
    """Zone set-points are not clamped by the library; the documented range for a zone is
    that of its air-conditioner.  Outside it the argument is not admissible (not judged)."""
    kind, idx, method, args = call
    if kind == "zone" and method == "set_target_temperature":
        lo, hi = expected_limits(gen, inst, idx[0])
        return lo <= args[0] <= hi
    return True


def should_refuse(gen, inst, call):
    """True if the contract says ValueError must be raised locally."""
    kind, idx, method, args = call
    if kind == "ac":
        ab = inst["acs"][idx]["ability"]
        if method == "set_power":
            return args[0] not in (POWERS4 if gen == 4 else POWERS5)
        if method == "set_mode":
            return not ab["modes"].get(args[0].lower(), False)
        if method == "set_fan_speed":
            return not ab["fans"].get(args[0].lower(), False)
        return False
    if kind == "zone":
        z = zone_of(inst, idx)
        st = z["status"]
        if method == "set_power":
            return args[0] == "TURBO" and gen == 4 and not st["turbo_support"]
        if method == "set_target_temperature":
            return not st["sensor"]
        if method == "set_damper_percentage":
            return not (0 <= args[0] <= 100)
    return False


def judge_frame(gen, inst, call, frame, cmd, timers_reported):
    """Compare the reference reading `cmd` of the single frame with the intent of `call`.
    Returns list of (mechanism suffix, detail)."""
    bad = []
    kind, idx, method, args = call

    def b(m, **d):
        bad.append((m, d))

    if frame.frm != R.ADDR_CLIENT or frame.to != R.expected_to_address(frame):
        b("address-wrong", to=frame.to, frm=frame.frm)
    if not frame.crc_ok:
        b("crc-wrong")
    if kind == "at":
        if cmd["kind"] != "version_request":
            b("wrong-message-kind", got=cmd["kind"])
        return bad
    if kind == "ac":
        aid = inst["acs"][idx]["ability"]["ac"]
        if method in ("set_power", "set_mode", "set_fan_speed", "set_target_temperature"):
            if cmd["kind"] != "ac_control":
                b("wrong-message-kind", got=cmd["kind"])
                return bad
            recs = [cmd] if gen == 4 else cmd["records"]
            if len(recs) != 1:
                b("not-exactly-one-record", n=len(recs))
                return bad
            r = recs[0]
            want = {"power": KEEP, "mode": KEEP, "fan": KEEP, "setpoint": KEEP}
            if method == "set_power":
                want["power"] = _PWR[args[0]]
            elif method == "set_mode":
                want["mode"] = args[0].lower()
                if args[1]:
                    want["power"] = "on"
            elif method == "set_fan_speed":
                want["fan"] = args[0].lower()
            else:
                want["setpoint"] = "set"
            if r["ac"] != aid:
                b("wrong-target", got=r["ac"], want=aid)
            for k, wv in want.items():
                if r[k] != wv:
                    b(f"attribute-{k}-wrong", got=r[k], want=wv)
            if gen == 4 and r.get("pad") != 0:
                b("pad-byte-not-zero", pad=r.get("pad"))
            if method == "set_target_temperature":
                lo, hi = expected_limits(gen, inst, idx)
                x = args[0]
                res = 1.0 if gen == 4 else 0.1
                wire = r["setpoint_value"] if gen == 4 else (r["setpoint_value"] + 100) / 10
                target = min(max(x, lo), hi)
                if wire < lo - 1e-9 or wire > hi + 1e-9:
                    b("setpoint-not-clamped", wire=wire, lo=lo, hi=hi, requested=x)
                elif abs(wire - target) > res / 2 + 1e-9:
                    b("setpoint-value-wrong", wire=wire, requested=x, clamped=target)
                if gen == 5 and r["setpoint_value"] > 250:
                    b("setpoint-raw-out-of-protocol-range", raw=r["setpoint_value"])
            return bad
        if method == "set_quick_timer_duration":
            if cmd["kind"] != "quick_timer":
                b("wrong-message-kind", got=cmd["kind"])
                return bad
            secs = int(args[1])   # one-minute resolution, truncating (documented)
            if cmd["ac"] != aid:
                b("wrong-target", got=cmd["ac"], want=aid)
            if cmd["timer"] != ("on" if args[0] == "ON_TIMER" else "off"):
                b("timer-type-wrong", got=cmd["timer"])
            if cmd["minutes"] != (secs // 60) % 60 or cmd["hours"] != (secs // 3600) % 24:
                b("timer-duration-wrong", hours=cmd["hours"], minutes=cmd["minutes"],
                  seconds=secs)
            return bad
        # timer control (time of day / clear)
        if cmd["kind"] != "timer_control":
            b("wrong-message-kind", got=cmd["kind"])
            return bad
        if gen == 4:
            rec = cmd["timers"].get(aid)
            # the four slots are numbered implicitly; the library documents that the slots of
            # air-conditioners which are not meant are left zeroed out - anything else in
            # them addresses a second air-conditioner
            others = {k: t["raw"] for k, t in cmd["timers"].items()
                      if k != aid and any(t["raw"])}
            if others:
                b("other-ac-slot-not-left-zeroed", slots=others)
        else:
            rs = [r for r in cmd["records"] if r["ac"] == aid]
            rec = rs[0] if len(rs) == 1 and len(cmd["records"]) == 1 else None
        if rec is None:
            b("wrong-target", want=aid)
            return bad
        which = "on" if args[0] == "ON_TIMER" else "off"
        other = "off" if which == "on" else "on"
        t = rec[which]
        if method == "clear_quick_timer":
            if not t["disabled"]:
                b("timer-not-cleared", got=t)
        else:
            if t["disabled"] or (t["hour"], t["minute"]) != (args[1], args[2]):
                b("timer-time-wrong", got=t, want=(args[1], args[2]))
        rep = timers_reported.get(aid)
        if rep is not None:
            o = rec[other]
            ro = rep[other]
            same = (o["disabled"] == ro["disabled"]
                    and (o["disabled"] or (o["hour"], o["minute"]) == (ro["hour"], ro["minute"])))
            ident = (o["disabled"], o["hour"], o["minute"]) == (ro["disabled"], ro["hour"],
                                                                ro["minute"])
            if not same:
                b("other-timer-changed", got=o, reported=ro)
            elif not ident:
                b("other-timer-not-byte-identical", got=o, reported=ro)
        return bad
    # zone
    z = zone_of(inst, idx)
    zid = z["id"]
    if cmd["kind"] != "zone_control":
        b("wrong-message-kind", got=cmd["kind"])
        return bad
    recs = [cmd] if gen == 4 else cmd["records"]
    if len(recs) != 1:
        b("not-exactly-one-record", n=len(recs))
        return bad
    r = recs[0]
    if r["zone"] != zid:
        b("wrong-target", got=r["zone"], want=zid)
    if r.get("pad") != 0:
        b("pad-byte-not-zero", pad=r.get("pad"))
    if gen == 5 and r.get("b1_hi"):
        b("zone-byte1-high-bits-not-zero")
    if method == "set_power":
        if r["power"] != args[0].lower():
            b("attribute-power-wrong", got=r["power"], want=args[0].lower())
        if r["setting"] != KEEP:
            b("attribute-setting-wrong", got=r["setting"], want=KEEP)
        if r["control_type"] != KEEP:
            b("attribute-control_type-wrong", got=r["control_type"], want=KEEP)
    elif method == "set_target_temperature":
        if r["power"] != KEEP:
            b("attribute-power-wrong", got=r["power"], want=KEEP)
        if r["setting"] != "set_setpoint":
            b("attribute-setting-wrong", got=r["setting"], want="set_setpoint")
        if r["control_type"] not in (KEEP, "temperature"):
            b("attribute-control_type-wrong", got=r["control_type"])
        x = args[0]
        res = 1.0 if gen == 4 else 0.1
        wire = r["value"] if gen == 4 else (r["value"] + 100) / 10
        if abs(wire - x) > res / 2 + 1e-9:
            b("setpoint-value-wrong", wire=wire, requested=x)
        if gen == 5 and r["value"] > 250:
            b("setpoint-raw-out-of-protocol-range", raw=r["value"])
    else:
        if r["power"] != KEEP:
            b("attribute-power-wrong", got=r["power"], want=KEEP)
        if r["setting"] != "set_damper" or r["value"] != args[0]:
            b("damper-value-wrong", got=(r["setting"], r["value"]), want=args[0])
        if r["control_type"] not in (KEEP, "damper"):
            b("attribute-control_type-wrong", got=r["control_type"])
    return bad


def churn_state(gen, inst, w, rnd):
    """The console reports a changed state for one zone or AC (sensor presence, turbo
    support, control method, AC mode - hence the AT5 limits); returns the frame it pushes.
    What a request is validated against is the LATEST report."""
    if inst["zones"] and rnd.random() < 0.6:
        z = rnd.choice(inst["zones"])
        st = z["status"]
        st["sensor"] = rnd.random() < 0.6
        st["control_method"] = "temperature" if st["sensor"] and rnd.random() < 0.5 else "damper"
        if gen == 4:
            st["turbo_support"] = rnd.random() < 0.5
            st["temp_raw11"] = None if st["sensor"] and rnd.random() < 0.3 else 700 + rnd.randrange(64)
        if gen == 5 and not st["sensor"]:
            st["sp_raw"] = rnd.choice([0xFF, st.get("sp_raw", 0xFF), 120])
        return w.console.frame_zone_status()
    a = rnd.choice(inst["acs"])
    if gen == 5:
        a["status"]["mode_code"] = rnd.choice([0, 1, 2, 3, 4, 8, 9])
        a["status"]["power_code"] = rnd.choice([0, 1, 2, 3, 5])
        # the "a timer is set" flag of the AC status comes and goes on its own
        a["status"]["timer"] = not a["status"].get("timer", False)
    else:
        a["status"]["mode_code"] = rnd.choice([0, 1, 2, 3, 4, 8, 9])
        a["status"]["power"] = rnd.choice(["off", "on"])
    return w.console.frame_ac_status()


def exercise(gen, inst, calls, *, on_result, churn=None):
    """Initialise a client against `inst`, make the calls one by one with the link up; for
    each call on_result(call, outcome, frames, timers_reported) is invoked with
    outcome = None | exception, frames = [(Frame, cmd)] written during the call."""
    status = {}

    async def main(loop, net, log):
        w = AW.ApiWorld(gen, loop, net, log, inst, C.Knobs(apply_commands=False))
        ok = await w.init()
        status["init"] = ok
        if ok is not True:
            return
        await quiesce(loop)
        for call in calls:
            if churn is not None and churn.random() < 0.3:
                c = net.current()
                if c is not None:
                    w.console.send(c, churn_state(gen, inst, w, churn))
                    await quiesce(loop)
                    status["churned"] = status.get("churned", 0) + 1
            mark = log.mark()
            nframes = len(w.console.frames)
            try:
                coro = perform(w.at, call)
            except Exception as e:   # raised before a coroutine even existed
                r = e
            else:
                r = await H.probe(log, call[2], coro)
            await quiesce(loop)
            frames = [(f, cmd) for (t, c, f, cmd) in w.console.frames[nframes:]]
            writes = sum(1 for _, _, k, d in log.since(mark) if k == "NET.write")
            on_result(call, r if isinstance(r, Exception) else None, frames, writes,
                      {a: dict(t) for a, t in inst["timers"].items()})
        await w.at.shutdown()

    _, log, st = H.run(main)
    status["loop"] = st
    status["unhandled"] = [e for e in log.events if e[2] == "LOOP.unhandled"]
    status["log"] = log
    return status
