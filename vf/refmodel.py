"""Executable reference model of the public object model (DESIGN.md §C10).

Holds, per entity, the reference codec's reading of the latest frame concerning
it and computes every public attribute from the contract in pyairtouch/api.py.
Imports nothing from pyairtouch."""

from __future__ import annotations

import copy

from . import refproto as R

NA, UNDEC = R.NA, R.UNDEC

_MODE_SEL = {"auto": "AUTO", "heat": "HEAT", "dry": "DRY", "fan": "FAN", "cool": "COOL",
             "auto_heat": "AUTO", "auto_cool": "AUTO"}
_MODE_ACT = dict(_MODE_SEL, auto_heat="HEAT", auto_cool="COOL")
_FAN_SEL = {"auto": "AUTO", "quiet": "QUIET", "low": "LOW", "medium": "MEDIUM", "high": "HIGH",
            "powerful": "POWERFUL", "turbo": "TURBO"}
_FAN_ACT = dict(_FAN_SEL)
for _k in ("quiet", "low", "medium", "high", "powerful", "turbo"):
    _FAN_SEL["ia_" + _k] = "INTELLIGENT_AUTO"
    _FAN_ACT["ia_" + _k] = _k.upper()
_POWER5 = {"off": "OFF", "on": "ON", "off_away": "OFF_AWAY", "on_away": "ON_AWAY",
           "sleep": "SLEEP"}


def _opt(v):
    """NA -> None (absent value in the public API)."""
    return None if v is NA else v


class RefModel:
    def __init__(self, gen):
        self.gen = gen
        self.phase = "init"
        self.version = None
        self.names = {}
        self.acs = {}     # id -> dict(ability, status, timer, err_text)
        self.zones = {}   # id -> dict(name, status, ac)
        self.zone_order = []

    # ------------------------------------------------------------ feeding
    def apply_raw(self, raw):
        frames, rest, err = R.parse_stream(self.gen, raw)
        changed = []
        for f in frames:
            if f.crc_ok:
                changed += self.apply(f.typ, f.data, f.to)
        return changed

    def apply(self, typ, data, to=R.ADDR_CLIENT):
        """Apply one frame; returns the list of changes
        [('ac', id, exposed_changed, record_changed) | ('zone', ...) | ('airtouch', ...)]."""
        try:
            rd = R.read_status(self.gen, typ, data)
        except R.Reject:
            return []
        if rd is UNDEC or not isinstance(rd, dict):
            return []
        ch = []
        if "update" in rd:
            old = self.version
            self.version = (rd["update"], rd["versions"])
            if self.phase == "connected":
                ch.append(("airtouch", None, old != self.version, old != self.version))
        elif "names" in rd and self.phase == "init":
            for z, nm in rd["names"].items():
                self.names[z] = nm
                self.zones[z] = {"name": nm, "status": None, "ac": None}
                if z not in self.zone_order:
                    self.zone_order.append(z)
        elif "abilities" in rd and self.phase == "init":
            abil = rd["abilities"]
            for a in abil:
                if self.gen == 4 and a["groups"] is not None:
                    zs = [z for z in a["groups"]]
                elif self.gen == 4 and len(abil) == 1:
                    zs = list(self.zone_order)
                else:
                    zs = list(range(a["start"], a["start"] + a["count"]))
                self.acs[a["ac"]] = {"ability": a, "status": None, "timer": None,
                                     "err_text": UNDEC, "zones": zs}
                for z in zs:
                    if z in self.zones:
                        self.zones[z]["ac"] = a["ac"]
        elif "acs" in rd:
            for rec in rd["acs"]:
                a = self.acs.get(rec["ac"])
                if a is None:
                    continue
                old = a["status"]
                a["status"] = rec
                if rec["error"] == 0:
                    a["err_text"] = None
                elif old is None or old["error"] == 0:
                    a["err_text"] = UNDEC  # a new error episode: text not known yet
                ch.append(("ac", rec["ac"], self._exposed_ac(old) != self._exposed_ac(rec),
                           old != rec))
        elif "timers" in rd:
            for rec in rd["timers"]:
                a = self.acs.get(rec["ac"])
                if a is None:
                    continue
                old = a["timer"]
                a["timer"] = {"on": rec["on"], "off": rec["off"]}
                ch.append(("ac", rec["ac"], self._exposed_timer(old) != self._exposed_timer(
                    a["timer"]), old != a["timer"]))
        elif "groups" in rd or "zones" in rd:
            for rec in rd.get("groups", rd.get("zones")):
                zid = rec.get("group", rec.get("zone"))
                z = self.zones.get(zid)
                if z is None:
                    continue
                old = z["status"]
                z["status"] = rec
                ch.append(("zone", zid, self._exposed_zone(old) != self._exposed_zone(rec),
                           old != rec))
        elif "ac" in rd and "text" in rd:
            a = self.acs.get(rd["ac"])
            if a is not None:
                old = a["err_text"]
                a["err_text"] = rd["text"]
                code = a["status"]["error"] if a["status"] else 0
                exposed = code != 0 and old is not UNDEC and old != rd["text"]
                # "the console merely repeats an identical report": identical to the previous
                # error-information frame of this AC AND to what a client that dropped the text
                # when the error code went away would still hold; otherwise hidden state may
                # legitimately have changed (MAY)
                last = a.get("err_frame", UNDEC)
                a["err_frame"] = rd["text"]
                if old is UNDEC or last is UNDEC:
                    rec = UNDEC
                else:
                    rec = last != rd["text"] or old != rd["text"]
                ch.append(("ac", rd["ac"], exposed if old is not UNDEC else UNDEC, rec))
        return ch

    def connected(self):
        self.phase = "connected"

    # ------------------------------------------------------- exposed views
    def _exposed_timer(self, t):
        if t is None:
            return None
        return tuple(None if t[k]["disabled"] else (t[k]["hour"], t[k]["minute"])
                     for k in ("on", "off"))

    def _exposed_ac(self, st):
        """The part of an AC status record that some public getter shows."""
        if st is None:
            return None
        d = {k: v for k, v in st.items() if k not in ("timer", "turbo", "bypass", "spill")}
        if self.gen == 4:
            d["spill_state"] = st["spill"]
        return tuple(sorted((k, repr(v)) for k, v in d.items()))

    def _exposed_zone(self, st):
        if st is None:
            return None
        keys = [k for k in st if k not in ("temperature_raw", "set_point_raw")]
        d = {k: st[k] for k in keys}
        if not st["sensor"]:
            d["battery_low"] = UNDEC
        return tuple(sorted((k, repr(v)) for k, v in d.items()))

    # --------------------------------------------------------- expectation
    def expect_zone(self, zid):
        z = self.zones[zid]
        st = z["status"]
        e = {"zone_id": zid, "name": z["name"],
             "target_temperature_resolution": 1.0 if self.gen == 4 else 0.1}
        if st is None:
            return e
        sup = ["OFF", "ON"]
        if self.gen == 5 or st["turbo_support"]:
            sup.append("TURBO")
        e.update({
            "supported_power_states": sorted(sup),
            "power_state": st["power"].upper() if st["power"] is not UNDEC else UNDEC,
            "control_method": st["control_method"].upper(),
            "has_temp_sensor": st["sensor"],
            "sensor_battery_status": ("LOW" if st["battery_low"] else "NORMAL")
            if st["sensor"] else UNDEC,
            "current_temperature": _opt(st["temperature"]),
            "target_temperature": _opt(st["set_point"]),
            "current_damper_percentage": st["damper"],
            "spill_active": st["spill"],
        })
        return e

    def expect_ac(self, aid):
        a = self.acs[aid]
        ab, st, tm = a["ability"], a["status"], a["timer"]
        e = {"ac_id": aid, "name": ab["name"],
             "supported_power_controls": sorted(
                 ["TOGGLE", "TURN_OFF", "TURN_ON"] + (["SET_TO_AWAY", "SET_TO_SLEEP"]
                                                      if self.gen == 5 else [])),
             "supported_modes": sorted(k.upper() for k, v in ab["modes"].items() if v),
             "supported_fan_speeds": sorted(k.upper() for k, v in ab["fans"].items() if v),
             "target_temperature_resolution": 1.0 if self.gen == 4 else 0.1,
             "zones": [z for z in a["zones"]]}
        if self.gen == 4 and ab.get("groups") is not None:
            e["zones"] = sorted(e["zones"])  # a set: order not defined
            e["_zones_unordered"] = True
        if self.gen == 4:
            e["min_target_temperature"] = ab["min_sp"]
            e["max_target_temperature"] = ab["max_sp"]
        if st is not None:
            mode = st["mode"]
            e.update({
                "power_state": (st["power"].upper() if self.gen == 4 else
                                _POWER5.get(st["power"], UNDEC)) if st["power"] is not NA
                else UNDEC,
                "selected_mode": _MODE_SEL.get(mode, UNDEC),
                "active_mode": _MODE_ACT.get(mode, UNDEC),
                "selected_fan_speed": _FAN_SEL.get(st["fan"], UNDEC),
                "active_fan_speed": _FAN_ACT.get(st["fan"], UNDEC),
                "current_temperature": st["temperature"] if st["temperature"] is not NA
                else UNDEC,
                "target_temperature": st["set_point"] if st["set_point"] is not NA else UNDEC,
            })
            if self.gen == 4:
                e["spill_state"] = "SPILL" if st["spill"] else "NONE"
            else:
                ss = st["spill_state"]
                e["spill_state"] = ss.upper() if ss is not UNDEC else UNDEC
                if mode == "heat":
                    lo, hi = ab["min_heat"], ab["max_heat"]
                elif mode == "cool":
                    lo, hi = ab["min_cool"], ab["max_cool"]
                else:
                    lo = min(ab["min_heat"], ab["min_cool"])
                    hi = max(ab["max_heat"], ab["max_cool"])
                e["min_target_temperature"], e["max_target_temperature"] = lo, hi
            if st["error"] == 0:
                e["error_info"] = None
            else:
                e["error_info"] = (st["error"], a["err_text"])
        elif self.gen == 5:
            lo = min(ab["min_heat"], ab["min_cool"])
            hi = max(ab["max_heat"], ab["max_cool"])
            e["min_target_temperature"], e["max_target_temperature"] = lo, hi
        if tm is not None:
            for k in ("on", "off"):
                t = tm[k]
                if t["disabled"]:
                    e[k + "_timer"] = None
                elif t["hour"] > 23 or t["minute"] > 59:
                    e[k + "_timer"] = UNDEC
                else:
                    e[k + "_timer"] = (t["hour"], t["minute"])
        return e

    def expected(self):
        e = {"acs": {a: self.expect_ac(a) for a in self.acs},
             "zones": {z: self.expect_zone(z) for z in self.zones if self.zones[z]["ac"]
                       is not None},
             "model": "AIRTOUCH_4" if self.gen == 4 else "AIRTOUCH_5"}
        if self.version is not None:
            e["update_available"] = self.version[0]
            e["console_versions"] = self.version[1]
        return e


def _eq(a, b):
    if isinstance(a, float) or isinstance(b, float):
        try:
            return abs(a - b) < 1e-9
        except TypeError:
            return False
    if isinstance(a, tuple) and isinstance(b, (tuple, list)):
        return len(a) == len(b) and all(x is UNDEC or _eq(x, y) for x, y in zip(a, b))
    return a == b


def diff(expected, snap):
    """[(path, expected, got)] for every decided disagreement."""
    out = []
    for key in ("model", "update_available", "console_versions"):
        if key in expected and expected[key] is not UNDEC and not _eq(expected[key],
                                                                       snap.get(key)):
            out.append((key, expected[key], snap.get(key)))
    for kind in ("acs", "zones"):
        es, ss = expected[kind], snap[kind]
        if set(es) != set(ss):
            out.append((kind + ".ids", sorted(es), sorted(ss)))
            continue
        for i, e in es.items():
            s = ss[i]
            unordered = e.get("_zones_unordered")
            for k, ev in e.items():
                if k.startswith("_") or ev is UNDEC:
                    continue
                gv = s.get(k)
                if k == "zones" and unordered and isinstance(gv, list):
                    gv = sorted(gv)
                if not _eq(ev, gv):
                    out.append((f"{kind}[{i}].{k}", ev, gv))
    return out
