"""C13 — reception is independent of TCP segmentation."""

from __future__ import annotations

import asyncio
import itertools
import random

from .. import frames as F
from .. import harness as H
from .. import refproto as R
from ..sockworld import SockWorld, quiesce, describe, baseline_delivery

ID = "C13"
LEVEL = "exploration"
EXHAUSTIVE = {"quick": False, "thorough": False}
RULE = ("Streams of 1..8 well-formed frames of every kind (both generations) are delivered to "
        "the real receive path under: every 1-cut and 2-cut position (quick: 4 streams; "
        "thorough: all streams, plus every 3-cut of the short streams), byte-at-a-time, random "
        "multi-cuts, many frames in one segment, with 0..3 loop turns or a virtual delay between "
        "segments. Oracle: same (header, message) list as the single-segment baseline (which "
        "itself must match the reference frame count), once each, in order, no reset. "
        "Non-trivial = every frame of the stream was delivered; distinct = distinct "
        "(stream, cut set, gap policy).")
ASSUMPTIONS = ["SimTransport.peer_data == one TCP segment arriving (data_received call)",
               "baseline cross-checked against refproto's frame count/order"]
REQUIRED_OBS = ["sends_between_segments", "segmentations_ok", "cuts_inside_header", "cuts_inside_crc", "byte_at_a_time",
                "slow_subscriber_runs", "second_client_receiving_in_the_gaps",
                "subscribed_while_a_frame_was_incomplete",
                "log_level_changed_between_segments",
                "subscribed_from_the_connected_notification",
                "subscriber_edits_the_messages_in_place",
                "sibling_subscriber_failing_meanwhile", "two_subscribers_in_lock_step"]
SOAK = True   # also judged by the whole-run monitors of the soak sessions (vf/soak.py)
BUDGET = {"quick": 100, "thorough": 1500}

GAPS = ["same_turn", "turn1", "turn3", "quiesce", "delay", "long_delay"]


def streams(gen):
    cat = dict(F.catalogue(gen))
    names = sorted(cat)
    # one frame of well over a kilobyte (200 zone / group records)
    rr = random.Random(f"long{gen}")
    if gen == 4:
        body = b"".join(R.b4_group_status_record(
            {"group": rr.randrange(16), "power": "on", "control_method": "temperature",
             "damper": rr.randrange(101), "battery_low": False, "turbo_support": True,
             "set_point_raw": rr.randrange(40), "sensor": True, "temp_raw11": rr.randrange(1500),
             "spill": False}) for _ in range(200))
        cat["long_status"] = R.frame(4, R.ADDR_CLIENT, 0x80, 77, 0x2B, body)
    else:
        recs = [R.b5_zone_status_record(
            {"zone": rr.randrange(16), "power": "on", "control_method": "temperature",
             "damper": rr.randrange(101), "sp_raw": rr.randrange(200), "sensor": True,
             "temp_raw11": rr.randrange(1500), "spill": False, "battery_low": False}, 8)
            for _ in range(200)]
        cat["long_status"] = R.frame(5, R.ADDR_CLIENT, 0x80, 77, 0xC0, R.c0(0x21, 8, recs))
    out = {}
    if gen == 4:
        out["version"] = ["version"]
        out["status_pair"] = ["ac_status", "group_status"]
        out["handshake"] = ["version", "names", "ability", "ac_status", "timer_status",
                            "group_status"]
        out["unknowns"] = ["unknown_type", "version", "unknown_ext", "error"]
    else:
        out["version"] = ["version"]
        out["status_pair"] = ["ac_status", "zone_status"]
        out["handshake"] = ["version", "names", "ability", "ac_status", "timer_status",
                            "zone_status"]
        out["unknowns"] = ["unknown_type", "version", "unknown_c0", "unknown_ext", "error",
                           "ac_status_8"]
    out["all"] = names
    out["repeat"] = ["version"] * 8
    out["long_frame"] = ["long_status", "version"]
    # a frame near the top of what the 16-bit length word allows (an unknown type: delivered
    # unchanged), with ordinary frames around it
    cat["huge_unknown"] = R.frame(gen, R.ADDR_CLIENT, 0x80, 78, 0x47, rr.randbytes(20000))
    cat["max_unknown"] = R.frame(gen, R.ADDR_CLIENT, 0x80, 79, 0x47,
                                 rr.randbytes(65535 if gen == 4 else 65523))
    out["huge_frame"] = ["version", "huge_unknown", "version", "max_unknown", "version"]
    return {k: b"".join(cat[n] for n in v) for k, v in out.items()}, \
           {k: len(v) for k, v in out.items()}


_BASE = {}


RAISER_TEXT = "the other message subscriber fails"


def deliver(gen, stream, cuts, gap, debug=False, delays=None, send_in_gap=False, duo=False,
            late_sub=False, flip_log=False, sub_on_connect=False, mutate=False, raiser=None,
            lockstep=False, pre_reset=False):
    """Deliver `stream` cut at `cuts`; returns (deliveries, closed, errors, status).
    send_in_gap: the application submits a command after every segment (sending and receiving
    go on at the same time on one connection).
    duo: a second client of the same generation lives in the process, connected to another
    console, and receives a whole frame of its own after every segment.
    late_sub: the socket has no message subscriber until the first segment has been dealt with;
    the application subscribes in the gap behind it (gap must be "quiesce").
    flip_log: the application changes the library's log level (WARNING <-> DEBUG) between the
    segments, as a "set log level" service does at run time.
    mutate: the subscriber changes every message object it is handed, in place.
    lockstep: a second message subscriber that works hand in hand with the recording one: for
    every frame each of them waits until the other has been handed the same frame (two halves
    of one application that meet at a barrier).
    raiser: a second message subscriber that fails for every frame ("all") or every other one
    ("odd"), at once or after a loop turn ("late") - while the recording one may still be busy.
    sub_on_connect: the message subscriber is registered by a connection subscriber, from inside
    the connected=True notification, a loop turn after the console's first segment arrived."""
    import pyairtouch.comms.socket as psock
    from .. import sockscript as S
    sent = []
    base2 = {}
    if duo:
        for i in range(len(cuts) + 1):
            r = F.probe_frame(gen, 40 + 7 * i)
            base2[r] = baseline_delivery(gen, r)

    async def main(loop, net, log):
        w = SockWorld(gen, loop, net, log)
        w.mutate_msgs = mutate
        if delays:
            w.msg_delays = list(delays)
        if lockstep:
            evs, cnt = {}, {"a": 0, "b": 0}

            def ev(i, who):
                return evs.setdefault((i, who), asyncio.Event())

            async def gate():
                i = cnt["a"]
                cnt["a"] += 1
                ev(i, "a").set()
                await ev(i, "b").wait()

            async def partner(hdr, msg):
                i = cnt["b"]
                cnt["b"] += 1
                ev(i, "b").set()
                await ev(i, "a").wait()
            w.msg_gate = gate
            w._partner = partner
            w.sock.subscribe_on_message_received(partner)
        if raiser:
            seen = []

            async def failing(hdr, msg):
                seen.append(1)
                if raiser == "late":
                    await asyncio.sleep(0)
                if raiser != "odd" or len(seen) % 2:
                    raise NotImplementedError(RAISER_TEXT)
            w._failing = failing
            w.sock.subscribe_on_message_received(failing)
        first_seg_done = []
        if sub_on_connect:
            w.sock.unsubcribe_on_message_received(w._on_msg)

            async def hook():
                c0 = net.current()
                c0.transport.peer_data(stream[:(list(cuts) + [len(stream)])[0]])
                first_seg_done.append(1)
                await asyncio.sleep(0)
                await asyncio.sleep(0)
                w.sock.subscribe_on_message_received(w._on_msg)
            w.on_connect_hooks.append(hook)
        if late_sub:
            w.sock.unsubcribe_on_message_received(w._on_msg)
        if pre_reset:
            # the first attempt is refused; while the client waits to try again the console
            # comes up and the application calls the public reset_connection(), which connects
            # at once. The stream then arrives on that connection, across the moment the
            # abandoned retry would have fired.
            net.script.append(("refuse", 0.0))
            await w.sock.open_socket()
            await asyncio.sleep(0.5)
            await w.sock.reset_connection()
            await quiesce(loop)
        else:
            await w.open()
        c = net.current()
        w2 = c2 = None
        fed2 = []
        if duo:
            w2 = SockWorld(gen, loop, net, log, host="10.0.0.2")
            await w2.open()
            c2 = net.current()
        pos = [0] + list(cuts) + [len(stream)]
        for i in range(len(pos) - 1):
            seg = stream[pos[i]:pos[i + 1]]
            if not seg:
                continue
            if i == 0 and first_seg_done:
                continue     # (delivered from inside the connected notification)
            c.transport.peer_data(seg)
            if duo:
                raw2 = F.probe_frame(gen, 40 + 7 * i)
                fed2.append(raw2)
                c2.transport.peer_data(raw2)
            if send_in_gap:
                msg, typ, data = S.make_message(gen, S.KINDS[i % 3], 7000 + i)
                sent.append((typ, bytes(data)))
                await w.sock.send(msg, psock.RETRY_IDEMPOTENT)
            if flip_log:
                import logging
                lg = logging.getLogger("pyairtouch")
                lg.setLevel(logging.WARNING if lg.level == logging.DEBUG else logging.DEBUG)
            if gap == "turn1":
                await asyncio.sleep(0)
            elif gap == "turn3":
                for _ in range(3):
                    await asyncio.sleep(0)
            elif gap == "quiesce":
                await quiesce(loop)
                if late_sub and i == 0:
                    w.sock.subscribe_on_message_received(w._on_msg)
            elif gap == "delay":
                await asyncio.sleep(0.25)
            elif gap == "long_delay":
                await asyncio.sleep(7.5)   # a stalled peer: still the same stream
        if delays:
            await asyncio.sleep(sum(delays) + 1.0)
        await quiesce(loop)
        closed = (not c.open) or len(net.conns) != (2 if duo else 1)
        out = list(w.descs) if mutate else [describe(h, m) for _, h, m in w.msgs]
        if duo:
            got2 = [describe(h, m) for _, h, m in w2.msgs]
            want2 = [base2[r] for r in fed2]
            if got2 != want2 or not c2.open:
                closed = True
                log.add("HARNESS.other_client_disturbed", want=len(want2), got=len(got2))
            await w2.close()
        if send_in_gap:
            by = S.frames_by_conn(gen, log).get(c.id)
            got = [(i["frame"].typ, bytes(i["frame"].data)) for i in by["frames"]
                   if i["frame"].crc_ok] if by else []
            if got != sent or (by and (by["rest"] or by["err"])):
                closed = True   # what was sent meanwhile did not arrive whole and in order
                log.add("HARNESS.sent_frames_damaged", want=len(sent), got=len(got))
        await w.close()
        return out, closed

    res, log, st = H.run(main, debug_logging=debug)
    errs = [e for e in log.events if e[2] in ("LOG.error", "LOOP.unhandled")
            and not (raiser and e[2] == "LOG.error" and RAISER_TEXT in str(e[3].get("exc")))]
    if res is None:
        return None, True, errs, st
    return res[0], res[1], errs, st


def baseline(gen, sname):
    key = (gen, sname)
    if key not in _BASE:
        st, cnt = streams(gen)
        out, closed, errs, status = deliver(gen, st[sname], [], "quiesce")
        frames, rest, err = R.parse_stream(gen, st[sname])
        ok = (status == "ok" and not closed and not errs and out is not None
              and len(out) == cnt[sname] == len(frames) and not rest and not err)
        _BASE[key] = (out, ok)
    return _BASE[key]


def cases(tier, seed):
    rnd = random.Random(f"C13/{tier}/{seed}")
    for gen in (4, 5):
        st, _ = streams(gen)
        quick_streams = ["version", "status_pair", "handshake", "unknowns"]
        for sname in sorted(st):
            n = len(st[sname])
            full = (tier == "thorough" or sname in quick_streams) and sname != "huge_frame"
            yield {"k": "base", "gen": gen, "stream": sname}
            yield {"k": "cuts", "gen": gen, "stream": sname, "gap": "same_turn",
                   "cuts": [list(range(1, n))]}  # byte at a time
            yield {"k": "cuts", "gen": gen, "stream": sname, "gap": "turn1",
                   "cuts": [list(range(1, n))]}
            # a subscriber that is slow for some messages: many frames in one segment must
            # still be handed over one after the other, in order
            for delays in ([0.3, 0.0, 0.2, 0.0, 0.1, 0.0, 0.0, 0.0], [0.0, 0.5, 0.0, 0.0],
                           [0.05] * 8):
                yield {"k": "cuts", "gen": gen, "stream": sname, "gap": "same_turn",
                       "cuts": [[], [n // 2]], "delays": delays}
            # the connection was made by reset_connection() while a retry was pending
            for gap in ("delay", "long_delay"):
                yield {"k": "cuts", "gen": gen, "stream": sname, "gap": gap,
                       "cuts": [[n // 2], [n // 3, 2 * n // 3], [1, n - 1]], "pre_reset": True}
            # two subscribers that wait for each other on every frame
            for gap in ("same_turn", "turn1", "quiesce"):
                yield {"k": "cuts", "gen": gen, "stream": sname, "gap": gap,
                       "cuts": [[], [n // 2], [n // 3, 2 * n // 3], list(range(1, n))],
                       "lockstep": True}
            # ... while another subscriber of the same socket fails for the same frames
            for raiser in ("all", "odd", "late"):
                yield {"k": "cuts", "gen": gen, "stream": sname, "gap": "same_turn",
                       "cuts": [[], [n // 2], [n // 3, 2 * n // 3]],
                       "delays": [0.02, 0.0, 0.3, 0.0, 0.0, 0.1, 0.0, 0.0], "raiser": raiser}
                yield {"k": "cuts", "gen": gen, "stream": sname, "gap": "turn1",
                       "cuts": [[], [n // 2]], "raiser": raiser}
            if full or tier == "thorough":
                # the application keeps sending while the frames trickle in
                ones_all = [[i] for i in range(1, n)]
                for gap in ("same_turn", "turn1", "quiesce"):
                    for ch in _chunks(ones_all, 100):
                        yield {"k": "cuts", "gen": gen, "stream": sname, "gap": gap, "cuts": ch,
                               "send_in_gap": True}
            if full:
                # a second client in the same process receives its own frames in the gaps
                for gap in ("same_turn", "turn1"):
                    for ch in _chunks([[i] for i in range(1, n)], 100):
                        yield {"k": "cuts", "gen": gen, "stream": sname, "gap": gap, "cuts": ch,
                               "duo": True}
            # a subscriber that edits every message object it is handed (byte-identical frames
            # follow each other in the "repeat" stream)
            for gap in ("same_turn", "quiesce"):
                yield {"k": "cuts", "gen": gen, "stream": sname, "gap": gap,
                       "cuts": [[], [n // 2], [n // 3, 2 * n // 3]], "mutate": True}
            if full:
                # the message subscriber is registered from inside the connected notification,
                # after the console's first segment has arrived
                for ch in _chunks([[i] for i in range(1, n)] + [[]], 100):
                    yield {"k": "cuts", "gen": gen, "stream": sname, "gap": "turn1", "cuts": ch,
                           "sub_on_connect": True}
            if full:
                # the log level changes while a frame is incomplete
                for gap in ("turn1", "quiesce"):
                    for ch in _chunks([[i] for i in range(1, n)], 100):
                        yield {"k": "cuts", "gen": gen, "stream": sname, "gap": gap, "cuts": ch,
                               "flip_log": True}
            if full:
                # the first subscriber arrives while a frame is incomplete
                for ch in _chunks([[i] for i in range(1, n)], 100):
                    yield {"k": "cuts", "gen": gen, "stream": sname, "gap": "quiesce",
                           "cuts": ch, "late_sub": True}
            if not full:
                continue
            ones = [[i] for i in range(1, n)]
            for gap in (GAPS if tier == "thorough" else ["same_turn", "quiesce", "long_delay"]):
                for ch in _chunks(ones, 100):
                    yield {"k": "cuts", "gen": gen, "stream": sname, "gap": gap, "cuts": ch}
            twos = [list(c) for c in itertools.combinations(range(1, n), 2)]
            if tier == "quick":
                if len(twos) > 1500:
                    twos = rnd.sample(twos, 1500)
            elif len(twos) > 30000:
                twos = rnd.sample(twos, 30000)
            for ch in _chunks(twos, 200):
                yield {"k": "cuts", "gen": gen, "stream": sname,
                       "gap": rnd.choice(["same_turn", "turn1", "quiesce"]), "cuts": ch}
            if tier == "thorough" and n <= 80:
                threes = [list(c) for c in itertools.combinations(range(1, n), 3)]
                for ch in _chunks(threes, 400):
                    yield {"k": "cuts", "gen": gen, "stream": sname,
                           "gap": rnd.choice(["same_turn", "turn1"]), "cuts": ch}
        # random multi-cuts
        m = 40 if tier == "quick" else 600
        for i in range(m):
            sname = rnd.choice(sorted(st))
            n = len(st[sname])
            cs = []
            for _ in range(25):
                k = rnd.randint(4, min(40, n - 1))
                cs.append(sorted(rnd.sample(range(1, n), k)))
            yield {"k": "cuts", "gen": gen, "stream": sname, "gap": rnd.choice(GAPS), "cuts": cs,
                   "debug": i % 7 == 0}


def _chunks(seq, n):
    for i in range(0, len(seq), n):
        yield seq[i:i + n]


def run_case(case):
    gen, sname = case["gen"], case["stream"]
    st, cnt = streams(gen)
    stream = st[sname]
    base, ok = baseline(gen, sname)
    viol = []
    obs = {}
    if case["k"] == "base":
        if not ok:
            viol.append({"mechanism": "single-segment-baseline-wrong",
                         "detail": {"gen": gen, "stream": sname, "stream_bytes": stream,
                                    "delivered": len(base) if base else None,
                                    "frames": cnt[sname]}})
        return {"violations": viol, "evals": 1, "decided": 1 if ok else 0, "distinct": 1,
                "obs": {"baselines": 1}, "sample": {"gen": gen, "stream": sname,
                                                     "bytes": stream}}
    if not ok:
        return {"violations": [], "evals": 0, "decided": 0, "obs": {"baseline_unusable": 1}}
    hl = R.header_len(gen)
    frames = R.parse_stream(gen, stream)[0]
    starts = [f.start for f in frames]
    ends = [f.start + len(f.raw) for f in frames]
    decided = 0
    for cuts in case["cuts"]:
        out, closed, errs, status = deliver(gen, stream, cuts, case["gap"],
                                            case.get("debug", False), case.get("delays"),
                                            case.get("send_in_gap", False),
                                            case.get("duo", False),
                                            case.get("late_sub", False),
                                            case.get("flip_log", False),
                                            case.get("sub_on_connect", False),
                                            case.get("mutate", False),
                                            case.get("raiser"), case.get("lockstep", False),
                                            case.get("pre_reset", False))
        if case.get("pre_reset"):
            obs["stream_across_an_abandoned_retry"] = obs.get(
                "stream_across_an_abandoned_retry", 0) + 1
        if case.get("lockstep"):
            obs["two_subscribers_in_lock_step"] = obs.get("two_subscribers_in_lock_step", 0) + 1
        if case.get("raiser"):
            obs["sibling_subscriber_failing_meanwhile"] = obs.get(
                "sibling_subscriber_failing_meanwhile", 0) + 1
        if case.get("mutate"):
            obs["subscriber_edits_the_messages_in_place"] = obs.get(
                "subscriber_edits_the_messages_in_place", 0) + 1
        if case.get("sub_on_connect"):
            obs["subscribed_from_the_connected_notification"] = obs.get(
                "subscribed_from_the_connected_notification", 0) + 1
        if case.get("flip_log"):
            obs["log_level_changed_between_segments"] = obs.get(
                "log_level_changed_between_segments", 0) + 1
        if case.get("late_sub") and out is not None and status == "ok":
            # frames complete before the subscription had nobody to go to; every frame that is
            # completed afterwards - the one cut in two included - is delivered
            k = sum(1 for e0 in ends if e0 <= cuts[0])
            if out == base[k:]:
                out = base
                obs["subscribed_while_a_frame_was_incomplete"] = obs.get(
                    "subscribed_while_a_frame_was_incomplete", 0) + 1
            else:
                out = [("late-subscriber-view", len(out), k)] + list(out)
        if case.get("duo"):
            obs["second_client_receiving_in_the_gaps"] = obs.get(
                "second_client_receiving_in_the_gaps", 0) + 1
        if case.get("send_in_gap"):
            obs["sends_between_segments"] = obs.get("sends_between_segments", 0) + len(cuts)
        if case.get("delays"):
            obs["slow_subscriber_runs"] = obs.get("slow_subscriber_runs", 0) + 1

        def v(mech, **d):
            viol.append({"mechanism": mech,
                         "detail": dict(gen=gen, stream=sname, cuts=cuts[:12], ncuts=len(cuts),
                                        gap=case["gap"], **d)})
        if status != "ok":
            v("segmentation-hang", status=status)
            break
        if closed:
            v("segmentation-causes-reset", delivered=len(out or []))
            break
        if out != base:
            if len(out) < len(base):
                v("frames-lost-under-segmentation", got=len(out), want=len(base))
            elif len(out) > len(base):
                v("frames-duplicated-under-segmentation", got=len(out), want=len(base))
            else:
                i = next(j for j in range(len(base)) if out[j] != base[j])
                v("message-differs-under-segmentation", index=i, got=out[i], want=base[i])
            break
        if errs:
            v("error-logged-under-segmentation", errors=H.jsonable(errs[:2]))
            break
        decided += 1
        for c in cuts:
            for s0, e0 in zip(starts, ends):
                if s0 < c < s0 + hl:
                    obs["cuts_inside_header"] = obs.get("cuts_inside_header", 0) + 1
                if e0 - 2 < c < e0:
                    obs["cuts_inside_crc"] = obs.get("cuts_inside_crc", 0) + 1
        if len(cuts) == len(stream) - 1:
            obs["byte_at_a_time"] = obs.get("byte_at_a_time", 0) + 1
    obs["segmentations_ok"] = decided
    return {"violations": H.cap(viol), "evals": len(case["cuts"]), "decided": decided,
            "distinct": decided, "obs": obs,
            "sample": {"gen": gen, "stream": sname, "len": len(stream), "gap": case["gap"],
                       "cuts": case["cuts"][0][:10]}}
