"""C02 — retry discipline: bounded attempts, none after expiry, non-idempotent once."""

from __future__ import annotations

import asyncio
import random

import pyairtouch.api as api

from .. import apiworld as AW
from .. import harness as H
from .. import refproto as R
from .. import sockscript as S
from ..sockworld import quiesce

ID = "C02"
LEVEL = "fault_enumeration"
EXHAUSTIVE = {"quick": False, "thorough": False}
RULE = ("Socket level: for every policy (idempotent 2x30 s, non-idempotent 0x30 s, "
        "connected-only 0x1 s, custom 1x0.5 s and 2x120 s) x fault placement {header write, "
        "payload write, CRC write, RST while drain is suspended, RST right after the write, "
        "refusal chains, connect latency} x k=1..4 consecutive faults x time of recovery "
        "relative to expiry {L-1ms, L-1us, L, L+1us, L+1ms}; plus random fault scripts. "
        "API level: every public command of both generations with a write fault on its first "
        "write, classified against the policy table of docs/design.md. An attempt = a logged "
        "write() carrying the first byte of the message's frame. Non-trivial = a write fault "
        "hit an in-flight message; distinct = distinct op lists / (command, fault) pairs.")
ASSUMPTIONS = ["the client cannot know whether a faulting write left: it counts as an attempt",
               "policy table: TOGGLE, +/-1 step, control-method CHANGE -> non-idempotent; "
               "handshake, heartbeat, refresh, error-info and AT4 group poll requests -> "
               "connected-only (1 s); everything else idempotent (<=3 attempts, 30 s)",
               "+/-1 step and CHANGE have no public entry point: driven through the private "
               "_send_*_control_message helpers (sub-clause inconclusive if they vanish)"]
REQUIRED_OBS = ["handshake_request_not_resent", "faults_hit_inflight", "retried_first_on_next_connection",
                "dropped_after_budget", "expiry_boundary_cases", "api_commands_classified",
                "nonidempotent_not_resent"]
SOAK = True   # also judged by the whole-run monitors of the soak sessions (vf/soak.py)
BUDGET = {"quick": 100, "thorough": 1500}

EPS = 1e-6


def sock_cases(tier, rnd):
    out = []
    pols = {"idem": (2, 30.0), "nonidem": (0, 30.0), "conn": (0, 1.0), "short": (1, 0.5),
            "long": (2, 120.0)}
    # --- fault on the n-th write of the message, k consecutive faulty connections,
    #     next connection after latency d
    for pol, (r, L) in pols.items():
        for n in (1, 2, 3):
            for k in (1, 2, 3, 4):
                for d in (0.0, 0.4, L - 1e-3, L - EPS, L, L + EPS, L + 1e-3):
                    if d < 0:
                        continue
                    ops = [["q"], ["wfail", n]]
                    # k-1 further connections whose first write fails, then a clean one
                    # that opens d seconds after the message was accepted
                    for i in range(k - 1):
                        ops.append(["net", "accept", 0.0, rnd.choice([1, 2, 3])])
                    ops.append(["net", "accept", d])
                    ops += [["send", "zone_ctrl", pol, "inline"], ["adv", d + 3.0]]
                    out.append(ops)
    # --- k consecutive faults of one exception kind (budget must be consumed whatever the
    #     OSError subclass is)
    for pol, (r, L) in pols.items():
        for exc in ("reset", "timeout", "oserror"):
            for k in (1, 2, 3, 4):
                ops = [["q"], ["wfail", 1, exc]]
                for i in range(k - 1):
                    ops.append(["net", "accept", 0.0, 1, exc])
                ops.append(["net", "accept", 0.1])
                ops += [["send", "ac_ctrl", pol, "inline"], ["adv", 3.0]]
                out.append(ops)
    # --- accepted while down, first connection at `a` faults, next connection at `b`
    #     (an expiry that moved with the retry would let the message out after its lifetime)
    for pol, (r, L) in pols.items():
        for a in (0.3 * L, 0.9 * L):
            for b in (L - 1e-3, L + 1e-3, a + L - 1e-3, a + 0.5 * L):
                if b <= a:
                    continue
                for exc in (None, "reset", "timeout", "oserror"):
                    out.append([["net", "accept", a, rnd.choice([1, 2, 3])],
                                ["net", "accept", b - a], ["fin"], ["q"],
                                ["send", "zone_ctrl", pol, "inline"], ["adv", b + 3.0]]
                               if exc is None else
                               [["net", "accept", a], ["net", "accept", b - a], ["fin"], ["q"],
                                ["send", "zone_ctrl", pol, "t1"], ["adv", a + 1e-4],
                                ["wfail", 1, exc], ["send", "ac_ctrl", "long", "inline"],
                                ["adv", b + 3.0]])
    # --- RST while drain is suspended (stalled writer) / right after the write
    for pol in pols:
        for d in (0.0, 0.9, 1.0 + EPS, 29.9, 30.0 + EPS):
            out.append([["q"], ["stall"], ["net", "accept", d],
                        ["send", "ac_ctrl", pol, "t1"], ["turns", 3], ["rst"],
                        ["adv", d + 3.0]])
            out.append([["q"], ["net", "accept", d], ["send", "ac_ctrl", pol, "inline"],
                        ["rst"], ["adv", d + 3.0]])
    # --- refusal chains while a message is held
    for pol, (r, L) in pols.items():
        for chain in (1, 2, 5, 16):
            ops = [["q"], ["wfail", 1]] + [["net", "refuse", 0.0]] * chain + \
                  [["send", "quick_timer", pol, "inline"], ["adv", 2.0 * chain + 3.0]]
            out.append(ops)
            ops = [["net", "refuse", 0.0]] * chain + \
                  [["send", "quick_timer", pol, "inline"], ["adv", 2.0 * chain + 3.0]]
            out.append(ops)
    # --- the dead link shows up on the receive side (reset / time-out / no route) and a
    #     command is submitted in the same instant, before the client has dealt with it: the
    #     write attempt fails with that very error
    for pol in ("idem", "long", "nonidem"):
        for kind in (None, "timeout", "oserror"):
            for turns in (0, 1):
                out.append([["q"], ["rst", kind], ["turns", turns],
                            ["send", "zone_ctrl", pol, "inline"], ["adv", 3.0]])
    # --- the link returns before the expiry, but a connection subscriber is still busy with
    #     connected=True when the lifetime ends: nothing may be written at or after the expiry
    for pol, (r, L) in pols.items():
        if L > 5:
            continue
        for back in (0.3 * L, L - 1e-3):
            for busy in (L, 2 * L + 0.5):
                out.append([["q"], ["slow_conn", busy], ["net", "accept", back], ["fin"], ["q"],
                            ["send", "zone_ctrl", pol, "inline"],
                            ["send", "ac_ctrl", "long", "inline"],
                            ["adv", back + busy + 3.0]])
    # --- open_socket() again (what a repeated init() does) while a message is held for the next
    #     connection: a no-op, the message still goes out first
    for pol in ("idem", "long", "short"):
        for d in (0.3, 0.9):
            out.append([["q"], ["wfail", 1], ["net", "accept", d],
                        ["send", "zone_ctrl", pol, "inline"], ["open"], ["adv", 0.1], ["open"],
                        ["send", "ac_ctrl", "idem", "inline"], ["adv", d + 3.0]])
            out.append([["q"], ["net", "accept", d], ["fin"], ["q"],
                        ["send", "zone_ctrl", pol, "inline"], ["open"], ["adv", d + 3.0]])
    # --- the twelfth transient write fault in the life of one socket is dealt with like the
    #     first: the command is re-sent first on the next connection
    for pol in ("idem", "long", "short"):
        ops = [["q"]]
        for i in range(14):
            ops += [["wfail", 1 + i % 2], ["net", "accept", 0.1],
                    ["send", S.KINDS[i % 3], pol, "inline"], ["adv", 3.0], ["q"]]
        out.append(ops)
    # --- an exact copy of the failed command is waiting behind it (the user pressed twice):
    #     the failed one is still re-sent first, the copy is a message of its own
    for pol in ("idem", "long"):
        for n in (1, 2):
            out.append([["net", "accept", 0.3, n], ["net", "accept", 0.2], ["fin"], ["q"],
                        ["send", "zone_ctrl", pol, "inline"], ["send", "ac_ctrl", pol, "inline"],
                        ["send_again", "zone_ctrl", pol, "inline"], ["adv", 4.0]])
            out.append([["q"], ["wfail", n], ["net", "accept", 0.2],
                        ["send", "zone_ctrl", pol, "t1"], ["send", "ac_ctrl", pol, "t2"],
                        ["send_again", "zone_ctrl", pol, "t3"], ["adv", 4.0]])
    # --- two messages: the retried one must go first on the next connection
    for n in (1, 2, 3):
        out.append([["q"], ["wfail", n], ["net", "accept", 0.5],
                    ["send", "zone_ctrl", "idem", "inline"],
                    ["send", "ac_ctrl", "idem", "inline"],
                    ["send", "quick_timer", "nonidem", "inline"], ["adv", 3.0]])
    # --- one write failure, then the application keeps submitting during the same outage -
    #     up to and beyond what the buffer holds: the failed command stays first in line
    for more in (1, 5, 8, 9, 10, 12):
        for pol in ("idem", "long"):
            out.append([["q"], ["wfail", 1], ["net", "refuse", 0.0],
                        ["send", "zone_ctrl", pol, "inline"], ["q"]]
                       + [["send", S.KINDS[i % 3], "long" if i % 2 else "idem", "inline"]
                          for i in range(more)]
                       + [["adv", 3.0]])
    # --- a console that is slow to read: the write of one message is suspended (buffers full)
    #     while other tasks submit theirs; nothing may go out twice, least of all a toggle
    for pol in ("nonidem", "idem", "conn"):
        for k in (1, 2, 4):
            out.append([["q"], ["stall"], ["send", "ac_ctrl", pol, "t1"], ["turns", 2]]
                       + [["send", S.KINDS[i % 3], ("idem", "nonidem")[i % 2], f"t{i % 3 + 1}"]
                          for i in range(k)]
                       + [["turns", 3], ["unstall"], ["adv", 3.0]])
            # ... and the application gives up on them (cancelled senders): nothing of theirs
            # may go out again on a later flush or connection
            out.append([["q"], ["stall"], ["send", "ac_ctrl", pol, "t1"], ["turns", 2]]
                       + [["send", S.KINDS[i % 3], ("idem", "nonidem")[i % 2], f"t{i % 3 + 1}"]
                          for i in range(k)]
                       + [["turns", 2], ["cancel_sends"], ["unstall"], ["adv", 0.5],
                          ["send", "zone_ctrl", "idem", "inline"], ["fin"], ["adv", 3.0],
                          ["send", "quick_timer", "idem", "inline"], ["adv", 1.0]])
    # --- random
    n = 300 if tier == "quick" else 150000
    for _ in range(n):
        ops = [["q"]] if rnd.random() < 0.7 else []
        for _i in range(rnd.randint(1, 8)):
            c = rnd.random()
            if c < 0.4:
                ops.append(["send", rnd.choice(S.KINDS), rnd.choice(list(pols)),
                            rnd.choice(["inline", "t1", "t2"])])
            elif c < 0.55:
                ops.append(["wfail", rnd.randint(1, 6)])
            elif c < 0.7:
                ops.append(["net", "accept", rnd.choice([0.0, 0.3, 0.5, 1.0, 2.0, 29.0]),
                            rnd.choice([None, None, 1, 2, 3, 4])])
            elif c < 0.8:
                ops.append(["net", "refuse", 0.0])
            elif c < 0.9:
                ops.append([rnd.choice(["rst", "fin"])])
            elif c < 0.96:
                ops.append(["adv", rnd.choice([0, 0.1, 0.5, 1.0, 2.0, 10.0, 31.0])])
            else:
                ops.append(["stall"])
                for _j in range(rnd.randint(1, 3)):
                    ops.append(["send", rnd.choice(S.KINDS), rnd.choice(list(pols)),
                                rnd.choice(["t1", "t2", "t3"])])
                ops.append(["turns", rnd.randint(1, 3)])
                ops.append(["unstall"])
        ops.append(["adv", 5.0])
        out.append(ops)
    return out


def cases(tier, seed):
    rnd = random.Random(f"C02/{tier}/{seed}")
    # anchor: the regression that a retry must be first on the next connection
    for gen in (4, 5):
        for ops in sock_cases(tier, rnd):
            yield {"k": "sock", "gen": gen, "ops": ops}
    for gen in (4, 5):
        for cmd in AW.COMMANDS[gen]:
            for fault in ("w1", "w2", "w3", "k2", "k3", "k4", "down_0.5", "down_1.5", "down_31"):
                yield {"k": "api", "gen": gen, "cmd": cmd, "fault": fault}
        for i, cmd in enumerate(AW.COMMANDS[gen]):
            for fault in ("down_0.5", "down_1.5", "k2"):
                if (i + len(fault)) % 3 == 0 or tier == "thorough":
                    yield {"k": "api", "gen": gen, "cmd": cmd, "fault": fault, "again": True}
        for req in ("heartbeat", "refresh", "error_info") + (("group_poll",) if gen == 4 else ()):
            for fault in ("w1", "w2", "w3"):
                yield {"k": "api_req", "gen": gen, "req": req, "fault": fault}


    # a write fault on each write of the six-step handshake of the first connection
    for gen in (4, 5):
        for write in range(1, 19):
            for lat, refuse in ((0.0, False), (0.5, False), (1.5, False), (0.0, True)):
                yield {"k": "hs", "gen": gen, "write": write, "lat": lat, "refuse": refuse}
                if lat in (0.0, 1.5):
                    yield {"k": "hs", "gen": gen, "write": write, "lat": lat, "refuse": refuse,
                           "zones0": True}


# ------------------------------------------------------------ socket-level oracle

def check_sock(gen, run):
    viol = []
    obs = {}
    log = run.log

    def v(mech, **d):
        viol.append({"mechanism": mech, "detail": d})

    if run.status != "ok":
        v("socket-scenario-hang", status=run.status)
        return viol, obs
    opens = [(seq, t, d["conn"]) for seq, t, k, d in log.events if k == "NET.open"]
    import builtins
    for r in run.sends:
        exc_t = getattr(builtins, str(r["outcome"]), None)
        if isinstance(exc_t, type) and issubclass(exc_t, OSError):
            # a link error is the retry discipline's business: it never surfaces from send()
            # (where the message, already taken off the queue, would simply be gone)
            v("link-error-surfaces-from-send", serial=r["serial"], outcome=r["outcome"],
              policy=r["policy"])
    for r in run.sends:
        if r["data"] is None or "call_seq" not in r or r["outcome"] not in ("ok", "pending",
                                                                             "cancelled"):
            continue
        att = S.attempts_of(gen, log, r)
        retries, L = r["policy"]
        expiry = r["call_t"] + L
        if r["outcome"] == "cancelled":
            # the application cancelled this send while it was under way: whatever had been
            # handed to the transport may go out - the budget and the expiry still hold,
            # nothing else is owed
            obs["cancelled_sends_judged"] = obs.get("cancelled_sends_judged", 0) + 1
            if len([a for a in att if not a["fault"]]) > 1:
                v("more-attempts-than-retry-budget", serial=r["serial"], attempts=len(att),
                  budget="1 (cancelled, no write fault)", policy=r["policy"])
            continue
        if len(att) > 1 + retries:
            v("more-attempts-than-retry-budget", serial=r["serial"], attempts=len(att),
              budget=1 + retries, policy=r["policy"])
            if retries == 0:
                obs["_nonidem_resent"] = 1
        for a in att:
            if a["t"] >= expiry:   # same float arithmetic as the client (call time + lifetime)
                v("attempt-at-or-after-expiry", serial=r["serial"], at=a["t"], expiry=expiry,
                  policy=r["policy"])
        nf = [a for a in att if a["fault"]]
        if nf:
            obs["faults_hit_inflight"] = obs.get("faults_hit_inflight", 0) + 1
            if retries == 0 and len(att) == 1:
                obs["nonidempotent_not_resent"] = obs.get("nonidempotent_not_resent", 0) + 1
        if len(att) == 1 + retries and all(a["fault"] for a in att):
            obs["dropped_after_budget"] = obs.get("dropped_after_budget", 0) + 1
        # lossless clause: exactly one transient write failure, retries left, link back in time
        ign = S.ignored_attempts(gen, log, r)
        if ign:
            obs["write_to_lost_transport"] = obs.get("write_to_lost_transport", 0) + 1
        if len(nf) == 1 and ign == 0 and retries >= 1 and nf[0] is att[0]:
            later = [(seq, t, c) for seq, t, c in opens if seq > nf[0]["seq"]]
            if later and later[0][1] < expiry - 1e-12:
                nxt = later[0]
                on_next = [a for a in att if a["conn"] == nxt[2]]
                # the clause speaks of a single transient failure: the next connection
                # itself must be free of injected faults
                clean_next = not any(
                    (k == "NET.write" and d["conn"] == nxt[2] and d["fault"])
                    or (k in ("NET.peer_fin", "NET.peer_rst") and d["conn"] == nxt[2])
                    for _, _, k, d in log.events)
                if not clean_next:
                    obs["next_connection_faulted_too"] = 1
                elif not on_next:
                    if True:
                        v("idempotent-command-lost-after-one-write-fault", serial=r["serial"],
                          policy=r["policy"], fault_at=nf[0]["t"], next_connection_at=nxt[1],
                          expiry=expiry)
                else:
                    if not on_next[0]["first_on_conn"] and _single_fault_context(run, r):
                        v("retried-command-not-first-on-next-connection", serial=r["serial"],
                          conn=nxt[2])
                    else:
                        obs["retried_first_on_next_connection"] = obs.get(
                            "retried_first_on_next_connection", 0) + 1
        for a in att:
            if abs((expiry - a["t"])) < 2e-3 or any(abs(expiry - t) < 2e-3 for _, t, _ in opens):
                obs["expiry_boundary_cases"] = 1
    return viol, obs


def _closed_at_once(log, conn):
    t_open = next(t for _, t, k, d in log.events if k == "NET.open" and d["conn"] == conn)
    t_close = next((t for _, t, k, d in log.events if k == "NET.close" and d["conn"] == conn),
                   None)
    return t_close is not None and t_close == t_open


def _single_fault_context(run, r):
    """'first on the next connection' is only well defined when this message is the only
    one that suffered a write fault before that connection."""
    log = run.log
    faulted = 0
    for s in run.sends:
        if s["data"] is None:
            continue
        att = S.attempts_of(run.world.gen, log, s)
        if any(a["fault"] for a in att):
            faulted += 1
    ign = any(k == "NET.write_ignored" for _, _, k, _ in log.events)
    # (a stalled link: several messages can be under way when it fails; each of them is
    # re-sent, which of them first is not stated)
    stalled = any(k == "NET.stall" for _, _, k, _ in log.events)
    return faulted == 1 and not ign and not stalled


# ------------------------------------------------------------ API level

def run_api(case):
    if case["k"] == "hs":
        return AW.handshake_fault_case(case)
    return AW.retry_case(case)


def run_case(case):
    if case["k"] == "sock":
        gen = case["gen"]
        run = S.run_script(gen, case["ops"], settle=35.0)
        viol, obs = check_sock(gen, run)
        for x in viol:
            x["log"] = H.log_slice(run.log, 40)
            x["detail"]["ops"] = case["ops"]
        obs.pop("_nonidem_resent", None)
        return {"violations": H.cap(viol), "evals": 1,
                "decided": 1 if obs.get("faults_hit_inflight") else 0, "obs": obs,
                "sample": {"gen": gen, "ops": case["ops"]}}
    viol, obs = run_api(case)
    for x in viol:
        x["detail"]["case"] = case
    return {"violations": H.cap(viol), "evals": 1,
            "decided": obs.get("api_commands_classified", 0), "obs": obs, "sample": case}
