"""C14 — state is refreshed after every reconnection and after AT4 group silence."""

from __future__ import annotations

import asyncio
import random

import pyairtouch.api as api

from .. import apiworld as AW
from .. import console as C
from .. import harness as H
from .. import refmodel as RM
from .. import refproto as R
from ..sockworld import quiesce
from . import c10

ID = "C14"
LEVEL = "fault_enumeration"
EXHAUSTIVE = {"quick": False, "thorough": False}
RULE = ("Initialised client of either generation; the link is lost at instant tau (grid of 40 "
        "instants in [0.001, 700] s incl. during a partially delivered frame) by {peer FIN, peer "
        "RST, write fault under a command, heartbeat-timeout reset}; outage length in {0, 1.9, "
        "2, 30, 400 s}; console state changed while down by {nothing, one attribute, "
        "everything}. Oracle: on the new connection an AC status request and a zone/group status "
        "request are written at the instant of open; after the answers the reference model (fed "
        "the answers) equals every getter; unchanged answers cause zero subscriber calls. AT4 "
        "group poll: group-status gaps {299, 300, 301, 900, 3000 s}, console answering or "
        "ignoring the poll; a model predicts the poll instants. Non-trivial = a reconnection "
        "(or a poll deadline) happened and was judged; distinct = distinct scenario parameters.")
ASSUMPTIONS = ["commands queued during the outage may legitimately precede the refresh requests",
               "a group status delivered at the very instant of the poll deadline is a tie "
               "(not generated)"]
REQUIRED_OBS = ["reconnects_judged", "refresh_requests_at_open", "converged_after_change",
                "unchanged_refresh_silent", "poll_requests_predicted_and_seen",
                "poll_restarted_by_status", "poll_after_reconnection", "flapping_reconnections",
                "refused_attempts_before_reconnection", "initialised_after_init_gave_up",
                "reconnections_with_commands_pending",
                "reconnections_after_the_held_commands_expired",
                "poll_on_installation_without_sensors"]
SOAK = True   # also judged by the whole-run monitors of the soak sessions (vf/soak.py)
BUDGET = {"quick": 100, "thorough": 1500}

TAUS = [0.001, 0.5, 1.0, 2.0, 5.0, 29.0, 100.0, 299.0, 299.999, 300.0, 300.001, 301.0, 330.0,
        450.0, 599.0, 600.0, 650.0]
OUTAGES = [0.0, 1.9, 2.0, 30.0, 400.0]


def cases(tier, seed):
    rnd = random.Random(f"C14/{tier}/{seed}")
    taus = TAUS if tier == "quick" else TAUS + [rnd.uniform(0, 700) for _ in range(23)]
    for gen in (4, 5):
        for how in ("fin", "rst", "wfail", "partial_fin"):
            for tau in taus:
                for outage in (OUTAGES if tier == "thorough" else
                               [rnd.choice(OUTAGES), rnd.choice(OUTAGES)]):
                    yield {"k": "reconnect", "gen": gen, "how": how, "tau": tau,
                           "outage": outage, "delta": rnd.choice(["none", "one", "all"]),
                           "seed": rnd.randrange(1 << 30),
                           # an AC in an error episode: with a text, with the empty answer,
                           # or with the error-text request never answered
                           "err": rnd.choice([None, None, "text", "empty", "silent"]),
                           # the link flaps: the console reads the refresh requests of the
                           # next k connections and drops each without answering
                           "flaps": rnd.choice([0, 0, 0, 1, 2, 3])}
        # outages of many refused attempts (an hour and more of retries every 2 s)
        for how, refusals in (("fin", 7), ("rst", 40), ("fin", 1100), ("wfail", 2000)):
            yield {"k": "reconnect", "gen": gen, "how": how, "tau": 1.0, "outage": 0.5,
                   "delta": "all", "seed": rnd.randrange(1 << 30), "err": None, "flaps": 0,
                   "refusals": refusals}
        # the application keeps issuing commands while the link is down (valid ones, and ones
        # no frame has room for): they are held and go out on the next connection - together
        # with the two refresh requests
        for pending in (["ok"], ["ok"] * 4, ["ok"] * 9, ["ok"] * 10, ["s300"], ["nan"], ["inf"],
                        ["inf", "inf"], ["ok", "inf", "ok"], ["s300", "nan", "inf", "ok"]):
            for how in ("fin", "rst"):
                yield {"k": "reconnect", "gen": gen, "how": how, "tau": 1.0,
                       "outage": rnd.choice([1.9, 2.0, 5.0]), "delta": "all",
                       "seed": rnd.randrange(1 << 30), "err": None, "flaps": 0,
                       "pending": pending}
        # ... and an outage that outlasts them: they expire, the refresh must not find them
        # in its way
        for pending in (["ok"] * 10, ["ok"] * 4, ["ok"] * 10 + ["inf"]):
            yield {"k": "reconnect", "gen": gen, "how": "fin", "tau": 1.0,
                   "outage": rnd.choice([31.0, 45.0, 400.0]), "delta": "all",
                   "seed": rnd.randrange(1 << 30), "err": None, "flaps": 0,
                   "pending": pending, "expire": True}
        # reconnections that the console resets before reading: the refresh request fails in
        # the middle of the connected notification; the next connection is refreshed all the same
        for how in ("fin", "rst", "wfail"):
            for wflaps in (1, 2, 3):
                yield {"k": "reconnect", "gen": gen, "how": how, "tau": 1.0,
                       "outage": rnd.choice([0.0, 1.9]), "delta": rnd.choice(["one", "all"]),
                       "seed": rnd.randrange(1 << 30), "err": None, "flaps": 0,
                       "wflaps": wflaps}
        for outage in OUTAGES:
            for delta in ("none", "one", "all"):
                yield {"k": "reconnect", "gen": gen, "how": "hb", "tau": 0.0, "outage": outage,
                       "delta": delta, "seed": rnd.randrange(1 << 30),
                       "err": rnd.choice([None, "text", "empty", "silent"])}
    n = 40 if tier == "quick" else 15000
    for i in range(n):
        gaps = [rnd.choice([299.0, 300.5, 301.0, 900.25, 3000.25, 150.0, 10.0])
                for _ in range(rnd.randint(0, 5))]
        yield {"k": "poll", "gen": 4, "gaps": gaps, "answer": rnd.random() < 0.5,
               "horizon": rnd.choice([1000.0, 3500.0]), "seed": rnd.randrange(1 << 30)}
    # silence that follows a reconnection (the poller must survive / restart)
    for answer in (False, True):
        for how_long in (0.0, 1.9, 30.0, 400.0):
            yield {"k": "poll", "gen": 4, "gaps": [], "answer": answer, "horizon": 1900.0,
                   "seed": 7, "losses": [[rnd.choice([50.25, 310.5, 120.75]), how_long]]}
    for i in range(n // 2):
        gaps = [rnd.choice([299.0, 300.5, 900.25, 150.0]) for _ in range(rnd.randint(0, 3))]
        losses = sorted([rnd.choice([40.25, 310.75, 650.5, 1000.25]) + rnd.random() * 0.01,
                         rnd.choice([0.0, 1.9, 30.0, 400.0])] for _ in range(rnd.randint(1, 2)))
        if len(losses) == 2 and losses[1][0] < losses[0][0] + losses[0][1] + 5:
            losses = losses[:1]
        yield {"k": "poll", "gen": 4, "gaps": gaps, "answer": rnd.random() < 0.5,
               "horizon": 2500.0, "seed": rnd.randrange(1 << 30), "losses": losses}
    for late in (1.0, 0.875):
        for answer in (False, True):
            yield {"k": "poll", "gen": 4, "gaps": [], "answer": answer, "horizon": 1000.0,
                   "seed": 3, "late_init": late}
            yield {"k": "poll", "gen": 4, "gaps": [150.0, 300.5], "answer": answer,
                   "horizon": 1300.0, "seed": 4, "late_init": late}
    yield {"k": "poll", "gen": 4, "gaps": [], "answer": False, "horizon": 1600.0, "seed": 1}
    yield {"k": "poll", "gen": 4, "gaps": [], "answer": True, "horizon": 1600.0, "seed": 2}


def mutate(w, rnd, delta):
    if delta == "none":
        return
    gen = w.gen
    inst = w.inst
    if delta == "one":
        st = inst["acs"][0]["status"]
        if gen == 4:
            st["set_point"] = (st["set_point"] + 1 + rnd.randrange(5)) % 40
        else:
            st["sp_raw"] = (st["sp_raw"] + 10 * (1 + rnd.randrange(5))) % 250
        return
    for a in inst["acs"]:
        a["status"] = c10.rand_ac(gen, rnd, a["status"]["ac"])
        a["status"]["error"] = 0
    for z in inst["zones"]:
        z["status"] = c10.rand_zone(gen, rnd, z["id"])
    if rnd.random() < 0.5:
        # ... and a zone was added at the console meanwhile: the refresh answer lists it first
        used = {z["id"] for z in inst["zones"]}
        inst["phantom_zone"] = next(i for i in (15, 14, 13, 12) if i not in used)


def run_reconnect(case):
    gen = case["gen"]
    rnd = random.Random(case["seed"])
    viol, obs = [], {}
    out = {}
    how = case["how"]

    async def main(loop, net, log):
        knobs = C.Knobs()
        if how == "hb":
            knobs = C.Knobs(answer_heartbeat=lambda n, t: 0.0 if n == 1 or t > 400 else None)
        if how == "wfail" or case.get("pending"):
            # the command that carries the write fault is re-sent after the reconnection; it
            # must not itself change the console state in the "unchanged" scenarios
            knobs = C.Knobs(apply_commands=False)
        inst = C.default_installation(gen, 2, (2, 1))
        err = case.get("err")
        if err:
            a0 = inst["acs"][0]["status"]
            a0["error"] = 7
            inst["errors"][a0["ac"]] = "E7 sensor" if err == "text" else None
            if err == "silent":
                knobs.silent_kinds = set(knobs.silent_kinds) | {"error_request"}
            obs["error_episode_" + err] = 1
        w = AW.ModelWorld(gen, loop, net, log, inst, knobs)
        if await w.init_and_sync() is not True:
            out["init"] = False
            return
        subs = []
        for ac in w.at.air_conditioners:
            s = H.Sub(log, f"ac{ac.ac_id}")
            ac.subscribe(s)
            s2 = H.Sub(log, f"acstate{ac.ac_id}")
            ac.subscribe_ac_state(s2)
            for z in ac.zones:
                sz = H.Sub(log, f"zone{z.zone_id}")
                z.subscribe(sz)
        sa = H.Sub(log, "airtouch")
        w.at.subscribe(sa)
        flap = {"n": case.get("flaps", 0), "seen": set(), "done": 0}
        if flap["n"]:
            handle0 = w.console._handle

            def handle(conn, f, cmd):
                if flap["n"] > 0 and flap.get("armed") and cmd["kind"] in (
                        "ac_status_request", "zone_status_request"):
                    flap["seen"].add(cmd["kind"])
                    if len(flap["seen"]) == 2:
                        flap["seen"].clear()
                        flap["n"] -= 1
                        flap["done"] += 1
                        loop.call_soon(conn.transport.peer_eof if flap["n"] % 2 else
                                       conn.transport.peer_reset)
                    return None
                return handle0(conn, f, cmd)
            w.console._handle = handle
        if how == "hb":
            await asyncio.sleep(329.9)
        else:
            await asyncio.sleep(case["tau"])
        await quiesce(loop)
        w.feed()
        c1 = net.current()
        if c1 is None:
            out["no_conn"] = True
            return
        for _ in range(case.get("refusals", 0)):
            # the console is unreachable for a (possibly very) long time: one refused
            # attempt every 2 s
            net.script.append((rnd.choice(["refuse", "refuse", "timeout", "unreachable"]), 0.0))
        if case.get("refusals"):
            obs["refused_attempts_before_reconnection"] = case["refusals"]
        for _ in range(case.get("wflaps", 0)):
            # the console accepts and resets before it has read anything: the first write on
            # that connection - the refresh request, sent from inside the connected
            # notification - fails
            net.script.append(("accept", 0.0, 1))
        if case.get("wflaps"):
            obs["reconnections_whose_first_write_failed"] = case["wflaps"]
        if case["outage"] > 0 or case.get("wflaps"):
            # the reconnection is in flight for `outage` seconds
            net.script.append(("accept", case["outage"]))
        t_loss = loop.time()
        m_loss = log.mark()
        flap["armed"] = True
        if how == "fin":
            c1.transport.peer_eof()
        elif how == "rst":
            c1.transport.peer_reset()
        elif how == "partial_fin":
            raw = w.console.frame_ac_status()
            c1.transport.peer_data(raw[:len(raw) // 2])
            await quiesce(loop)
            c1.transport.peer_eof()
        elif how == "wfail":
            c1.fail_write_at = c1.nwrites + 1
            await H.probe(log, "set_power", w.ac.set_power(api.AcPowerControl.TURN_ON))
        elif how == "hb":
            await asyncio.sleep(0.2)  # the heartbeat timeout fires at T0+330
        await quiesce(loop)
        mutate(w, rnd, case["delta"])
        out["sub_mark"] = log.mark()
        n_ok = 0
        for i, kind in enumerate(case.get("pending") or []):
            zs = [z for ac in w.at.air_conditioners for z in ac.zones if z.has_temp_sensor]
            try:
                if kind == "ok":
                    n_ok += 1
                    await w.at.air_conditioners[0].set_fan_speed(
                        w.at.air_conditioners[0].supported_fan_speeds[
                            i % len(w.at.air_conditioners[0].supported_fan_speeds)])
                elif zs:
                    await zs[0].set_target_temperature(
                        {"s300": 300.0, "nan": float("nan"), "inf": float("inf")}[kind])
            except (ValueError, ArithmeticError) as e:
                log.add("API.raise", name=kind, exc=repr(e))
            except Exception as e:  # noqa: BLE001
                import pyairtouch.comms.socket as psock
                if not isinstance(e, psock.QueueOverflowError):
                    raise
                log.add("API.raise", name=kind, exc=repr(e))   # an eleventh one: refused
                if kind == "ok":
                    n_ok -= 1
        out["pending_ok"] = 0 if case.get("expire") else n_ok
        if case.get("expire"):
            out["accepted_then_expired"] = min(n_ok, 10)
        await asyncio.sleep(case["outage"] + 2.5 + 2.0 * case.get("refusals", 0)
                            + 2.5 * case.get("wflaps", 0))
        await quiesce(loop)
        c2 = net.current()
        out["reconnected"] = c2 is not None and c2.id != c1.id
        if not out["reconnected"]:
            out["conns"] = [c.id for c in net.conns]
            return
        opens = [(seq, t, d["conn"]) for seq, t, k, d in log.since(m_loss) if k == "NET.open"]
        out["open_t"] = opens[-1][1]
        out["open_seq"] = opens[-1][0]
        reqs = [(t, d["cmd"]["kind"]) for seq, t, k, d in log.since(opens[-1][0])
                if k == "CON.frame" and d["conn"] == c2.id]
        out["reqs"] = reqs
        w.feed()
        out["diff"] = RM.diff(w.model.expected(), H.snapshot(w.at))[:4]
        out["sub_calls"] = [d["name"] for _, _, k, d in log.since(out["sub_mark"])
                            if k == "SUB.call"]
        out["t_loss"] = t_loss
        out["flaps_done"] = flap["done"]
        await w.at.shutdown()

    _, log, st = H.run(main)

    def v(mech, **d):
        viol.append({"mechanism": mech, "detail": dict(case, **d), "log": H.log_slice(log, 40)})

    if st != "ok":
        v("reconnect-scenario-hang", status=st)
        return viol, obs
    if out.get("init") is False or out.get("no_conn"):
        return viol, obs
    if not out.get("reconnected"):
        v("no-reconnection-after-connection-loss", conns=out.get("conns"))
        return viol, obs
    kinds_at_open = [k for t, k in out["reqs"] if abs(t - out["open_t"]) < 1e-9]
    missing = [k for k in ("ac_status_request", "zone_status_request") if k not in kinds_at_open]
    if missing:
        # (with ten commands held the buffer is full when the connected notification asks for
        # the refresh: recorded defect D15, a mechanism of its own)
        full = out.get("pending_ok", 0) >= 10 and not case.get("expire")
        v("refresh-request-missing-at-reconnect" + (":ten-commands-held" if full else ""),
          missing=missing, seen=out["reqs"][:6], open_at=out["open_t"])
    else:
        obs["refresh_requests_at_open"] = 1
    if case.get("expire"):
        obs["reconnections_after_the_held_commands_expired"] = 1
    if case.get("pending"):
        obs["reconnections_with_commands_pending"] = 1
        got = sum(1 for t, k in out["reqs"] if k == "ac_control")
        if got != out["pending_ok"]:
            v("command-held-during-the-outage-not-sent-once", sent=got, held=out["pending_ok"],
              seen=[k for t, k in out["reqs"]][:16])
    if out["diff"]:
        v("model-not-converged-after-reconnect", diff=out["diff"])
    elif case["delta"] != "none":
        obs["converged_after_change"] = 1
    if case["delta"] == "none" and how != "partial_fin":
        if out["sub_calls"]:
            v("unchanged-refresh-causes-notifications", calls=out["sub_calls"][:6])
        else:
            obs["unchanged_refresh_silent"] = 1
    obs["reconnects_judged"] = 1
    if out.get("flaps_done"):
        obs["flapping_reconnections"] = out["flaps_done"]
    return viol, obs


def predict_poll(T0, statuses, losses, answer, horizon):
    """Event simulation of the AT4 group-status silence clock across reconnections.
    statuses: times of unsolicited group status frames; losses: [(t, outage)].
    Returns (expected zone-status request instants, restarts, reconnects)."""
    static = [(t, "status") for t in statuses]
    for t, o in losses:
        static.append((t, "loss"))
        static.append((t + o, "up"))
    static.sort()
    reqs = []
    nxt = T0 + 300.0
    connected = True
    restarted = 0
    reconnects = 0
    while True:
        t_static = static[0][0] if static else float("inf")
        if min(t_static, nxt) > horizon:
            break
        if abs(t_static - nxt) < 1e-6:
            return None, 0, 0   # tie inside one instant: undecided
        if t_static <= nxt:
            t, kind = static.pop(0)
            if kind == "status":
                if connected:
                    nxt = t + 300.0
                    restarted += 1
            elif kind == "loss":
                connected = False
            else:
                connected = True
                reconnects += 1
                reqs.append(t)            # refresh request on the connected notification
                if answer:
                    nxt = t + 300.0       # the answer is a group status
        else:
            t = nxt
            if connected:
                reqs.append(t)
            nxt = t + 300.0               # answered or not, the clock re-arms for 300 s
    return reqs, restarted, reconnects


def run_poll(case):
    viol, obs = [], {}
    out = {}
    rnd = random.Random(case["seed"])
    losses = case.get("losses", [])

    async def main(loop, net, log):
        knobs = C.Knobs(broadcast=False)
        inst = C.default_installation(4, 1, (3,))
        flavour = case["seed"] % 4
        if flavour == 1:
            # a damper-only installation: no group has a temperature sensor
            for z in inst["zones"]:
                z["status"]["sensor"] = False
                z["status"]["control_method"] = "damper"
            obs["poll_on_installation_without_sensors"] = 1
        elif flavour == 2:
            inst = C.default_installation(4, 2, (1, 2))
        w = AW.ModelWorld(4, loop, net, log, inst, knobs)
        if case.get("late_init"):
            # a slow console: init() gives up after 5 s (False), the handshake completes in the
            # background 6 x late_init after the call; the silence clock starts with the group
            # status of the handshake
            knobs.latency = case["late_init"]
            t_call = loop.time()
            r = await w.init()
            await asyncio.sleep(t_call + 6 * case["late_init"] - loop.time())
            await quiesce(loop)
            knobs.latency = 0.0
            if r is not False or not w.at.initialised:
                return
            obs["initialised_after_init_gave_up"] = 1
        elif await w.init_and_sync() is not True:
            return
        if not case["answer"]:
            knobs.silent_kinds.add("zone_status_request")
        T0 = loop.time()
        out["T0"] = T0
        out["m0"] = log.mark()
        plan = []
        t = T0
        for g in case["gaps"]:
            t += g
            plan.append((t, "status", None))
        for lt, o in losses:
            plan.append((T0 + lt, "loss", o))
        plan.sort(key=lambda x: x[0])
        ev, ls = [], []
        for t, kind, arg in plan:
            if t > T0 + case["horizon"]:
                break
            await asyncio.sleep(max(0.0, t - loop.time()))
            c = net.current()
            if kind == "status":
                st = w.inst["zones"][rnd.randrange(3)]["status"]
                st["damper"] = (st["damper"] + 5) % 100
                if c:
                    w.console.send(c, w.console.frame_zone_status())
                ev.append(loop.time())
            elif c is not None:
                net.script.append(("accept", arg))
                ls.append((loop.time(), arg))
                c.transport.peer_eof()
            await quiesce(loop)
        await asyncio.sleep(max(0.0, T0 + case["horizon"] - loop.time()))
        await quiesce(loop)
        out["events"], out["losses"] = ev, ls
        out["end"] = loop.time()
        out["polls"] = [t for _, t, k, d in log.since(out["m0"]) if k == "CON.frame"
                        and d["cmd"]["kind"] == "zone_status_request"]
        w.feed()
        out["diff"] = RM.diff(w.model.expected(), H.snapshot(w.at))[:3]
        await w.at.shutdown()

    _, log, st = H.run(main)

    def v(mech, **d):
        viol.append({"mechanism": mech, "detail": dict(case, **d), "log": H.log_slice(log, 30)})

    if st != "ok" or "polls" not in out:
        v("poll-scenario-did-not-run", status=st)
        return viol, obs
    want, restarted, reconnects = predict_poll(out["T0"], out["events"], out["losses"],
                                               case["answer"], out["end"] - 1e-3)
    got = out["polls"]
    if want is None:
        return viol, {"ties_skipped": 1}
    if len(want) != len(got) or any(abs(a - b) > 1e-6 for a, b in zip(want, got)):
        missing = [t for t in want if not any(abs(t - x) < 1e-6 for x in got)]
        extra = [t for t in got if not any(abs(t - x) < 1e-6 for x in want)]
        if missing:
            v("group-status-poll-missing", missing=missing[:4], seen=got[:8],
              events=out["events"], losses=out["losses"])
        if extra:
            v("group-status-poll-unexpected", extra=extra[:4], expected=want[:8],
              events=out["events"], losses=out["losses"])
    else:
        obs["poll_requests_predicted_and_seen"] = len(want)
        if restarted:
            obs["poll_restarted_by_status"] = 1
        if reconnects and any(t > max(l[0] + l[1] for l in out["losses"]) + 1 for t in want):
            obs["poll_after_reconnection"] = 1
    if out["diff"]:
        v("model-not-following-group-status", diff=out["diff"])
    return viol, obs


def run_case(case):
    viol, obs = run_reconnect(case) if case["k"] == "reconnect" else run_poll(case)
    dec = 1 if (obs.get("reconnects_judged") or obs.get("poll_requests_predicted_and_seen")) else 0
    return {"violations": H.cap(viol), "evals": 1, "decided": dec, "obs": obs, "sample": case}
