"""C17 — unknown and malformed input is tolerated, never misread."""

from __future__ import annotations

import asyncio
import random

from .. import extract as X
from .. import frames as F
from .. import harness as H
from .. import refproto as R
from ..sockworld import SockWorld, quiesce, describe

ID = "C17"
LEVEL = "exploration"
EXHAUSTIVE = {"quick": False, "thorough": False}
RULE = ("Through the real receive path of both registries: every message type byte 0..255 x "
        "payload lengths 0..40 (random payload), every 0xC0 sub-type 0..255 with random "
        "(normal, repeat, count) consistent with the length, every 0x1F sub-id 0xFF00..0xFFFF "
        "plus random ids, strides known..known+6, and streams built from valid frames with "
        "k bit flips and recomputed CRC, every known frame kind re-framed (valid CRC) with its body "
        "cut to each length 0..n-1 or extended by 1..6 bytes, truncations at every offset, random bytes and frames "
        "of the other generation. Oracle: deliveries == reference reading of the reference-good "
        "frames in order (UNDEC skipped), unknown ids delivered as UnsupportedMessage with the "
        "payload unchanged and no reset, no unhandled exception anywhere, recovery probe "
        "delivered afterwards. Non-trivial = at least one frame was delivered and compared or a "
        "reset was observed and recovered; distinct = distinct streams.")
ASSUMPTIONS = ["reference framing decides which byte ranges are frames; a frame the repo's "
               "decoder rejects (reset) is allowed unless its type/sub-type is unknown",
               "AT5 byte stuffing (00 after three 0x55) is not implemented by the repo by its own "
               "documentation; generated payloads avoid 55 55 55 runs only where stated"]
REQUIRED_OBS = ["unknown_type_delivered", "unknown_c0_sub_delivered", "unknown_ext_delivered",
                "compared_with_reference", "malformed_reset_recovered", "long_stride_decoded",
                "reframed_bodies", "equal_check_byte_pairs",
                "streaks_of_rejecting_connections_recovered",
                "flips_in_the_uncovered_header_bytes"]
BUDGET = {"quick": 100, "thorough": 1500}

REGISTERED = {4: {0x1F, 0x2A, 0x2B, 0x2C, 0x2D, 0x36, 0x37}, 5: {0x1F, 0xC0}}
C0_KNOWN = {0x20, 0x21, 0x22, 0x23, 0x32, 0x33}
EXT_KNOWN = {4: {0xFF10, 0xFF11, 0xFF12, 0xFF20, 0xFF30}, 5: {0xFF10, 0xFF11, 0xFF13, 0xFF30,
                                                             0xFF49}}
MAX_PROBE_BYTES = 65535


def cases(tier, seed):
    rnd = random.Random(f"C17/{tier}/{seed}")
    for gen in (4, 5):
        for t0 in range(0, 256, 16):
            yield {"k": "types", "gen": gen, "types": list(range(t0, t0 + 16)),
                   "seed": rnd.randrange(1 << 30),
                   "lens": list(range(0, 41)) if tier == "thorough" else
                   sorted(rnd.sample(range(0, 41), 8) + [0, 1, 2])}
        for s0 in range(0, 256, 32):
            yield {"k": "ext", "gen": gen, "sids": [0xFF00 + s for s in range(s0, s0 + 32)]
                   + [rnd.randrange(0x10000) for _ in range(8 if tier == "quick" else 250)],
                   "seed": rnd.randrange(1 << 30)}
    for s0 in range(0, 256, 32):
        yield {"k": "c0", "gen": 5, "subs": list(range(s0, s0 + 32)),
               "seed": rnd.randrange(1 << 30), "reps": 2 if tier == "quick" else 12}
    # CRC-valid frames of every known kind whose body is shorter / longer than its layout:
    # each body length 0..len-1 (and +1..+6 noise bytes), header length and CRC recomputed
    for gen in (4, 5):
        for name in sorted(F.catalogue(gen)):
            yield {"k": "reframed", "gen": gen, "kind": name, "seed": rnd.randrange(1 << 30)}
    # consecutive frames that happen to carry the same check bytes (a CRC-16 collision) but
    # differ in header or payload: each is read from its own bytes
    for gen in (4, 5):
        yield {"k": "collide", "gen": gen, "seed": rnd.randrange(1 << 30),
               "n": 12 if tier == "quick" else 400}
    yield {"k": "stride", "seed": rnd.randrange(1 << 30), "n": 60 if tier == "quick" else 600}
    # every single-bit flip in the bytes in front of the check-value-covered part (frame
    # markers, the AT5 length words): whatever such bytes mean, nothing else is delivered
    for gen in (4, 5):
        names = sorted(F.catalogue(gen))
        pick = names if tier == "thorough" else [names[(seed + 3 * j) % len(names)]
                                                 for j in range(3)]
        for name in pick:
            yield {"k": "hdrflip", "gen": gen, "kind": name}
    # many connections in a row that each end in rejected input
    # (own generator: the cases that follow keep the seeds they had before these were added)
    rnd_streak = random.Random(f"C17/streak/{tier}/{seed}")
    for gen in (4, 5):
        for n, kinds in ((7, ["crc"]), (12, ["flip"]), (25, ["crc", "flip", "noise"]),
                         (9, ["noise"])) + (((120, ["flip", "crc"]),) if tier == "thorough"
                                            else ()):
            yield {"k": "streak", "gen": gen, "n": n, "kinds": kinds,
                   "seed": rnd_streak.randrange(1 << 30)}
    n = 150 if tier == "quick" else 60000
    for i in range(n):
        yield {"k": "stream", "gen": rnd.choice((4, 5)), "seed": rnd.randrange(1 << 30),
               "how": rnd.choice(["flips", "flips", "trunc", "random", "othergen", "mix"])}
    if tier == "thorough":
        for gen in (4, 5):
            cat = F.catalogue(gen)
            for name in sorted(cat):
                for cut in range(1, len(cat[name])):
                    yield {"k": "trunc_at", "gen": gen, "kind": name, "cut": cut}


def _noise(rnd, n):
    # avoid three consecutive 0x55 (AT5 byte stuffing is out of scope, DESIGN §6)
    b = bytearray(rnd.randbytes(n))
    for i in range(len(b)):
        if b[i] == 0x55:
            b[i] = 0x54
    return bytes(b)


def run_stream(gen, stream, segs=None, close_after=False):
    """Deliver `stream` (optionally cut at `segs`) to a fresh real socket, then run the
    recovery probe.  Returns dict."""
    async def main(loop, net, log):
        w = SockWorld(gen, loop, net, log)
        await w.open()
        c1 = net.current()
        pos = [0] + sorted(segs or []) + [len(stream)]
        for i in range(len(pos) - 1):
            seg = stream[pos[i]:pos[i + 1]]
            if seg and c1.open:
                c1.transport.peer_data(seg)
                await quiesce(loop)
        await quiesce(loop)
        first = [(describe(h, m), h, m) for cid, h, m in w.msgs if cid == c1.id]
        n_first = len(w.msgs)
        closed1 = not c1.open
        # recovery probe
        sent = 0
        pid = 30
        delivered = False
        tries = 0
        while sent <= MAX_PROBE_BYTES + 4096 and tries < 3000:
            tries += 1
            c = net.current()
            if c is None:
                await asyncio.sleep(3.0)
                await quiesce(loop)
                c = net.current()
                if c is None:
                    break
            p = F.probe_frame(gen, pid)
            pid = 30 + (pid - 29) % 200
            n0 = len(w.msgs)
            burst = p if sent < 512 else p * 40
            if not c.transport.peer_data(burst):
                await quiesce(loop)
                continue
            sent += len(burst)
            await quiesce(loop)
            if len(w.msgs) > n0:
                delivered = True
                break
        out = {"first": first, "closed1": closed1, "probe_delivered": delivered,
               "probe_bytes": sent, "max_open": net.max_open,
               "extra_on_c1": [describe(h, m) for cid, h, m in w.msgs[n_first:]
                               if cid == c1.id and False]}
        await w.close()
        return out

    out, log, st = H.run(main)
    bad = [e for e in log.events if e[2] == "LOOP.unhandled" or (
        e[2] == "LOG.error" and "Unhandled exception in background task" in e[3]["msg"])]
    return out, log, st, bad


def judge_stream(gen, stream, viol, obs, label, segs=None, must_deliver=False):
    out, log, st, bad = run_stream(gen, stream, segs)

    def v(mech, **d):
        viol.append({"mechanism": mech, "detail": dict(gen=gen, what=label, stream=stream[:200],
                                                       stream_len=len(stream), **d),
                     "log": H.log_slice(log, 25)})
    if st != "ok" or out is None:
        v("malformed-input-hang", status=st)
        return
    if bad:
        v("unhandled-exception-of-receive-task", events=H.jsonable(bad[:2]))
    good, needs_reset, upto = _good(gen, stream)
    deliv = out["first"]
    if len(deliv) > len(good):
        v("message-delivered-for-bytes-that-are-no-frame", delivered=len(deliv),
          good_frames=len(good), extra=deliv[len(good)][0])
        return
    for i, (desc, h, m) in enumerate(deliv):
        f = good[i]
        if (h.to_address, h.from_address, h.packet_id, h.message_id, h.message_length) != (
                f.to, f.frm, f.pid, f.typ, len(f.data)):
            v("header-misread", frame=f.raw, got=repr(h))
            continue
        try:
            ref = R.read_status(gen, f.typ, f.data)
        except R.Reject as e:
            obs["ref_rejects_repo_decodes"] = obs.get("ref_rejects_repo_decodes", 0) + 1
            extra = X.records_beyond_announced(gen, f.typ, bytes(f.data), X.extract(gen, m))
            if extra:
                v("records-decoded-beyond-the-announced-count", frame=f.raw, extra_records=extra)
            continue
        if ref is R.UNDEC:
            obs["undecided"] = obs.get("undecided", 0) + 1
            continue
        got = X.extract(gen, m)
        if isinstance(ref, dict) and ("unknown" in ref or "ext_unknown" in ref
                                      or ref.get("unknown") is True):
            want_id = ref.get("ext_unknown", ref.get("sub") if ref.get("unknown") is True
                              else ref.get("unknown"))
            if got.get("unsupported") != want_id or got.get("body") != ref["body"]:
                v("unknown-message-not-delivered-unchanged", frame=f.raw, got=repr(m)[:200])
            else:
                key = ("unknown_ext_delivered" if "ext_unknown" in ref else
                       "unknown_c0_sub_delivered" if ref.get("unknown") is True
                       else "unknown_type_delivered")
                obs[key] = obs.get(key, 0) + 1
            continue
        if not X.same_shape(ref, got):
            v("frame-decoded-as-wrong-kind", frame=f.raw, got=repr(m)[:200])
            continue
        diffs = [d for d in X.compare(ref, got) if d[1] != "na-as-value"]
        # (not-available sentinels decoded as numbers are C05's known findings)
        if diffs:
            v("delivered-message-differs-from-what-the-bytes-mean", frame=f.raw,
              field=diffs[0][0], reference=diffs[0][2], repo=diffs[0][3])
        else:
            obs["compared_with_reference"] = obs.get("compared_with_reference", 0) + 1
            if gen == 5 and f.typ == 0xC0 and len(f.data) >= 8:
                rl = (f.data[4] << 8) | f.data[5]
                known = {0x21: 8, 0x23: 8, 0x33: 9}.get(f.data[0])
                if known and rl > known and ((f.data[6] << 8) | f.data[7]) > 0 \
                        and not (f.data[0] == 0x23 and rl == 10):
                    obs["long_stride_decoded"] = obs.get("long_stride_decoded", 0) + 1
    if len(deliv) < len(good):
        # the repo rejected good frame number len(deliv): allowed unless unknown type/sub-type
        f = good[len(deliv)]
        unknown = f.typ not in REGISTERED[gen]
        try:
            if not unknown and f.typ == 0xC0 and gen == 5:
                sub, normal, rl, rc, body = R.c0_subheader(f.data)
                unknown = sub not in C0_KNOWN and len(body) == normal + rl * rc
            if not unknown and f.typ == 0x1F and len(f.data) >= 2:
                unknown = ((f.data[0] << 8) | f.data[1]) not in EXT_KNOWN[gen]
        except R.Reject:
            pass
        if unknown:
            v("well-formed-unknown-frame-not-delivered", frame=f.raw)
        elif must_deliver:
            v("status-record-longer-than-known-layout-rejected", frame=f.raw)
        elif not out["closed1"]:
            v("frame-dropped-without-reset", frame=f.raw)
        else:
            obs["repo_rejected_known_type"] = obs.get("repo_rejected_known_type", 0) + 1
    elif needs_reset and not out["closed1"]:
        # structural/CRC error at `upto`: the client may legitimately still be waiting for
        # more bytes (announced length not reached); only a complete bad frame must reset
        pass
    elif not needs_reset and out["closed1"] and len(deliv) == len(good) and not _tail(gen, stream):
        v("connection-reset-by-well-formed-input", delivered=len(deliv))
    if out["max_open"] > 1:
        v("two-connections-open", max_open=out["max_open"])
    if not out["probe_delivered"]:
        v("client-cannot-recover-after-input", probe_bytes=out["probe_bytes"])
    elif out["closed1"]:
        obs["malformed_reset_recovered"] = obs.get("malformed_reset_recovered", 0) + 1


def _good(gen, stream):
    frames, rest, err = R.parse_stream(gen, stream)
    good = []
    for f in frames:
        if not f.crc_ok:
            return good, True, f.start
        good.append(f)
    return good, err is not None, len(stream) - len(rest)


def _tail(gen, stream):
    frames, rest, err = R.parse_stream(gen, stream)
    return bool(rest) or err is not None


def run_streak(case):
    """Connection after connection ends in input the client must reject (a frame that fails its
    check, a known frame with a body that cannot be decoded, noise) before anything was
    decoded on it; the console then sends well-formed frames again: they are delivered."""
    from ..sockworld import baseline_delivery
    gen, n = case["gen"], case["n"]
    rnd = random.Random(case["seed"])
    viol, obs, out = [], {}, {}
    cat = F.catalogue(gen)
    names = sorted(cat)

    def junk(i):
        kind = case["kinds"][i % len(case["kinds"])]
        raw = cat[names[rnd.randrange(len(names))]]
        if kind == "crc":
            b = bytearray(raw)
            b[-1] ^= 0x5A
            return bytes(b)
        if kind == "flip":
            b = bytearray(raw)
            s0, e0 = F.covered_span(gen, raw)
            b[rnd.randrange(s0, e0 - 2)] ^= 1 << rnd.randrange(8)
            return bytes(b)
        return _noise(rnd, rnd.randint(30, 90))

    want_probe = baseline_delivery(gen, F.probe_frame(gen, 77))

    async def main(loop, net, log):
        w = SockWorld(gen, loop, net, log)
        await w.open()
        await quiesce(loop)
        seen = set()
        for i in range(n):
            c = net.current()
            tries = 0
            while c is None and tries < 5:
                await asyncio.sleep(2.5)
                await quiesce(loop)
                c = net.current()
                tries += 1
            if c is None:
                out["stuck_at"] = i
                return
            seen.add(c.id)
            c.transport.peer_data(junk(i))
            await quiesce(loop)
            if c.open:
                # (not rejected yet - noise without a frame in it: the console hangs up)
                c.transport.peer_reset()
                await quiesce(loop)
            await asyncio.sleep(2.5)
            await quiesce(loop)
        out["connections"] = len(seen)
        c = net.current()
        out["connected"] = c is not None
        out["is_open"] = w.sock.is_open
        if c is not None:
            n0 = len(w.msgs)
            probe = F.probe_frame(gen, 77)
            c.transport.peer_data(probe)
            await quiesce(loop)
            out["got"] = [describe(h, m) for _, h, m in w.msgs[n0:]]
            out["want"] = [want_probe]
        await w.close()

    _, log, st = H.run(main)
    info = {"gen": gen, "connections_ending_in_rejected_input": n, "kinds": case["kinds"]}
    if st != "ok":
        viol.append({"mechanism": "client-wedged-after-malformed-input",
                     "detail": dict(info, status=st)})
    elif "stuck_at" in out or not out.get("connected") or not out.get("is_open"):
        viol.append({"mechanism": "client-gives-up-after-repeated-malformed-input",
                     "detail": dict(info, **{k: v for k, v in out.items()})})
    elif out["got"] != out["want"]:
        viol.append({"mechanism": "well-formed-frame-not-delivered-after-malformed-streak",
                     "detail": dict(info, got=out["got"][:2])})
    else:
        obs["streaks_of_rejecting_connections_recovered"] = 1
    for v in viol:
        v["log"] = H.log_slice(log, 30)
    ok = 0 if viol else 1
    return {"violations": viol, "evals": n, "decided": ok, "distinct": ok, "obs": obs,
            "sample": info}


def run_case(case):
    if case["k"] == "streak":
        return run_streak(case)
    k = case["k"]
    viol, obs = [], {}
    n = 0
    rnd = random.Random(case.get("seed", 0))
    sample = None
    if k == "types":
        gen = case["gen"]
        for t in case["types"]:
            frames = []
            for ln in case["lens"] + ([255, 256, 300, 1027] if t % 16 == 5 else []):
                to = R.ADDR_CLIENT if rnd.random() < 0.7 else rnd.randrange(256)
                frames.append(R.frame(gen, to, rnd.choice([0x80, 0x90, rnd.randrange(256)]),
                                      rnd.randrange(256), t, _noise(rnd, ln)))
            if t in REGISTERED[gen]:
                # each on its own (a reject resets the connection)
                for fr in frames:
                    judge_stream(gen, fr, viol, obs, f"type {t:#x}")
                    n += 1
            else:
                judge_stream(gen, b"".join(frames), viol, obs, f"type {t:#x} x{len(frames)}")
                n += len(frames)
        sample = {"gen": gen, "types": case["types"][:4], "lens": case["lens"][:6]}
    elif k == "hdrflip":
        gen = case["gen"]
        raw = F.catalogue(gen)[case["kind"]]
        s0, _e0 = F.covered_span(gen, raw)
        tail = F.probe_frame(gen, 91)
        for bit in range(s0 * 8):
            b = bytearray(raw)
            b[bit // 8] ^= 0x80 >> (bit % 8)
            # alone, and with an intact frame behind it
            judge_stream(gen, bytes(b) + (tail if bit % 2 else b""), viol, obs,
                         f"{case['kind']} bit {bit} of the uncovered header flipped")
            n += 1
        obs["flips_in_the_uncovered_header_bytes"] = n
        sample = {"gen": gen, "kind": case["kind"], "flips": n}
    elif k == "ext":
        gen = case["gen"]
        known, unknown = [], []
        for sid in case["sids"]:
            fr = R.frame(gen, R.ADDR_CLIENT, 0x90, rnd.randrange(256), 0x1F,
                         R.ext(sid, _noise(rnd, rnd.randint(0, 30))))
            (known if sid in EXT_KNOWN[gen] else unknown).append(fr)
        judge_stream(gen, b"".join(unknown), viol, obs, "unknown ext ids")
        for fr in known:
            judge_stream(gen, fr, viol, obs, "known ext id, random body")
        n = len(case["sids"])
        sample = {"gen": gen, "sids": case["sids"][:5]}
    elif k == "c0":
        unk = []
        for sub in case["subs"]:
            for _ in range(case["reps"]):
                normal = rnd.choice([0, 0, 1, 5])
                rl = rnd.randint(0, 12)
                rc = rnd.randint(0, 6)
                body = _noise(rnd, normal + rl * rc)
                data = bytes([sub, 0, normal >> 8, normal & 0xFF, rl >> 8, rl & 0xFF, rc >> 8,
                              rc & 0xFF]) + body
                fr = R.frame(5, R.ADDR_CLIENT, 0x80, rnd.randrange(256), 0xC0, data)
                if sub in C0_KNOWN:
                    judge_stream(5, fr, viol, obs, f"known c0 sub {sub:#x} random body")
                else:
                    unk.append(fr)
                n += 1
        judge_stream(5, b"".join(unk), viol, obs, "unknown c0 sub types")
        sample = {"subs": case["subs"][:6]}
    elif k == "stride":
        for _ in range(case["n"]):
            sub = rnd.choice([0x21, 0x23, 0x33])
            known = {0x21: 8, 0x23: 8, 0x33: 9}[sub]
            st = known + rnd.randint(1, 6)
            recs = []
            for _i in range(rnd.randint(1, 6)):
                while True:
                    kind, raw = F.random_status_frame(5, rnd)
                    f = R.parse_stream(5, raw)[0][0]
                    if f.typ == 0xC0 and f.data[0] == sub and ((f.data[6] << 8) | f.data[7]):
                        break
                recs.append(bytes(f.data[8:8 + known]) + _noise(rnd, st - known))
            fr = R.frame(5, R.ADDR_CLIENT, 0x80, rnd.randrange(256), 0xC0, R.c0(sub, st, recs))
            judge_stream(5, fr, viol, obs, f"stride {st} sub {sub:#x}", must_deliver=True)
            n += 1
        sample = {"strides": "known+1..known+6", "n": case["n"]}
    elif k == "collide":
        gen = case["gen"]

        def more(reg, data):
            for byte in data:
                reg ^= byte
                for _ in range(8):
                    reg = (reg >> 1) ^ 0xA001 if reg & 1 else reg >> 1
            return reg

        def with_crc(to, frm, pid, typ, body_prefix, target):
            """A frame whose payload is body_prefix + two solved bytes so that its check
            value equals `target`."""
            ln = len(body_prefix) + 2
            head = bytes([to, frm, pid, typ, ln >> 8, ln & 0xFF]) + body_prefix
            reg0 = R.crc16(head)
            for a in range(256):
                if a == 0x55:
                    continue
                reg1 = more(reg0, bytes([a]))
                for b in range(256):
                    if b != 0x55 and more(reg1, bytes([b])) == target:
                        return R.frame(gen, to, frm, pid, typ, body_prefix + bytes([a, b]))
            return None

        for _ in range(case["n"]):
            # first frame: an unknown type or a status frame; second: an unknown type / unknown
            # extended id / unknown 0xC0 sub type with the same check bytes
            if rnd.random() < 0.5:
                a_raw = R.frame(gen, R.ADDR_CLIENT, 0x80, rnd.randrange(256), 0x77,
                                _noise(rnd, rnd.randint(2, 12)))
            else:
                a_raw = F.random_status_frame(gen, rnd)[1]
            fa = R.parse_stream(gen, a_raw)[0][0]
            target = (a_raw[-2] << 8) | a_raw[-1]
            which = rnd.choice(["type", "ext", "c0"] if gen == 5 else ["type", "ext"])
            if which == "type":
                b_raw = with_crc(R.ADDR_CLIENT, 0x80, rnd.randrange(256), rnd.choice([0x77, 0x02]),
                                 _noise(rnd, rnd.randint(0, 10)), target)
            elif which == "ext":
                b_raw = with_crc(R.ADDR_CLIENT, 0x90, rnd.randrange(256), 0x1F,
                                 bytes([0xFF, 0x78]) + _noise(rnd, rnd.randint(0, 8)), target)
            else:
                b_raw = with_crc(R.ADDR_CLIENT, 0x80, rnd.randrange(256), 0xC0,
                                 bytes([0x99, 0, 0, 2, 0, 0, 0, 0]), target)
            if b_raw is None or b_raw[-2:] != a_raw[-2:] or b_raw == a_raw:
                continue
            judge_stream(gen, a_raw + b_raw + F.probe_frame(gen, 77), viol, obs,
                         "two frames with equal check bytes")
            obs["equal_check_byte_pairs"] = obs.get("equal_check_byte_pairs", 0) + 1
            n += 1
        sample = {"gen": gen, "pairs": n}
    elif k == "reframed":
        gen = case["gen"]
        f = R.parse_stream(gen, F.catalogue(gen)[case["kind"]])[0][0]
        body = bytes(f.data)
        whole = []
        if gen == 5 and f.typ == 0xC0 and len(body) >= 8:
            rl = (body[4] << 8) | body[5]
            if rl and len(body) >= 8 + rl:
                # whole extra records behind the announced ones (count not updated)
                whole = [body + body[8:8 + rl], body + body[8:8 + rl] * 2]
        for ln in list(range(len(body))) + [len(body) + x for x in range(1, 7)] + whole:
            if isinstance(ln, bytes):
                data = ln
                ln = len(data)
            else:
                data = body[:ln] + _noise(rnd, max(0, ln - len(body)))
            fr = R.frame(gen, f.to, f.frm, rnd.randrange(256), f.typ, data)
            judge_stream(gen, fr, viol, obs, f"{case['kind']} body {ln}/{len(body)} bytes")
            obs["reframed_bodies"] = obs.get("reframed_bodies", 0) + 1
            n += 1
        sample = {"gen": gen, "kind": case["kind"], "body_len": len(body)}
    elif k == "trunc_at":
        gen = case["gen"]
        raw = F.catalogue(gen)[case["kind"]]
        judge_stream(gen, F.probe_frame(gen, 3) + raw[:case["cut"]], viol, obs,
                     f"truncated {case['kind']} at {case['cut']}")
        n = 1
        sample = case
    else:
        gen = case["gen"]
        how = case["how"]
        parts = []
        for _ in range(rnd.randint(1, 5)):
            kind, raw = F.random_status_frame(gen, rnd)
            h = how if how != "mix" else rnd.choice(["flips", "trunc", "random", "othergen", "ok"])
            if h == "flips":
                f = R.parse_stream(gen, raw)[0][0]
                d = bytearray(f.data)
                for _i in range(rnd.randint(1, 4)):
                    if d:
                        d[rnd.randrange(len(d))] ^= 1 << rnd.randrange(8)
                raw = R.frame(gen, f.to, f.frm, f.pid, f.typ, bytes(d))
            elif h == "trunc":
                raw = raw[:rnd.randrange(1, len(raw))]
            elif h == "random":
                raw = rnd.randbytes(rnd.choice([1, 3, 8, 20, 200, 1000, 4096]))
            elif h == "othergen":
                raw = F.random_status_frame(9 - gen, rnd)[1]
            parts.append(raw)
        stream = b"".join(parts)
        segs = None
        if rnd.random() < 0.4 and len(stream) > 4:
            segs = sorted(rnd.sample(range(1, len(stream)), min(5, len(stream) - 1)))
        judge_stream(gen, stream, viol, obs, how, segs)
        n = 1
        sample = {"gen": gen, "how": how, "stream": stream[:120]}
    decided = (obs.get("compared_with_reference", 0) + obs.get("unknown_type_delivered", 0)
               + obs.get("unknown_c0_sub_delivered", 0) + obs.get("unknown_ext_delivered", 0)
               + obs.get("malformed_reset_recovered", 0))
    return {"violations": H.cap(viol), "evals": n, "decided": decided, "distinct": decided,
            "obs": obs, "sample": sample}
