"""C12 — subscribers hear about every change, and only about changes."""

from __future__ import annotations

import asyncio
import random

from .. import apiworld as AW
from .. import harness as H
from .. import refmodel as RM
from ..sockworld import quiesce
from . import c10

ID = "C12"
LEVEL = "exploration"
EXHAUSTIVE = {"quick": False, "thorough": False}
RULE = ("C10's frame sequences (changed / unchanged mix: every frame is followed with "
        "probability 1/3 by an exact repeat) with AirTouch-, AC-, AC-state- and zone-level "
        "subscribers, random subscribe-twice / unsubscribe placements and every subset of up to "
        "4 raising subscribers. After each injected frame the recorded invocations are compared "
        "three-way with the reference model's diff: MUST (an exposed attribute of the entity "
        "changed), MUST NOT (identical record / not subscribed / AC-state-only subscriber for a "
        "zone change), MAY (only unexposed bits differ). Non-trivial = a frame produced at least "
        "one MUST or MUST-NOT verdict; distinct = distinct (frame, subscriber set) steps.")
ASSUMPTIONS = ["subscribers are callables returning awaitables (objects with async __call__, "
               "bound methods, plain functions); a failing one raises either inside the "
               "coroutine or when it is called",
               "change classification comes from the reference model fed the same bytes"]
REQUIRED_OBS = ["must_verdicts", "must_not_verdicts", "repeat_frames", "raising_subscribers",
                "zone_to_ac_forwarding", "unsubscribed_silent", "double_subscription",
                "after_reinit", "single_field_changes", "self_unsubscribed_in_callback",
                "bound_method_subscribers", "subscribers_failing_when_called",
                "same_callable_on_both_ac_channels", "subscriber_kept_across_reinit",
                "subscribed_during_init_and_entity_changed"]
SOAK = True   # also judged by the whole-run monitors of the soak sessions (vf/soak.py)
BUDGET = {"quick": 100, "thorough": 1500}


def cases(tier, seed):
    rnd = random.Random(f"C12/{tier}/{seed}")
    n = 250 if tier == "quick" else 60000
    for i in range(n):
        yield {"gen": rnd.choice((4, 5)), "seed": rnd.randrange(1 << 30),
               "n": rnd.randint(3, 25), "raise_mask": i % 16, "reinit": i % 5 == 0}
    for i in range(16 if tier == "quick" else 2000):
        yield {"k": "midinit", "gen": (5, 4)[i % 2], "seed": rnd.randrange(1 << 30),
               "latency": rnd.choice([0.05, 0.2, 0.3]), "poll": rnd.choice([0.01, 0.05, 0.11])}


_Z_STATUS = ("power_state", "control_method", "has_temp_sensor", "sensor_battery_status",
             "current_temperature", "target_temperature", "current_damper_percentage",
             "spill_active")
_A_STATUS = ("power_state", "selected_mode", "active_mode", "selected_fan_speed",
             "active_fan_speed", "current_temperature", "target_temperature", "spill_state",
             "error_info", "on_timer", "off_timer")


def run_midinit(case):
    """Subscriptions made while init() is still under way: the air-conditioner and zone
    objects are public as soon as they exist. A subscriber whose entity shows other
    status-derived values when init() returns than at the moment it subscribed was told."""
    gen = case["gen"]
    rnd = random.Random(case["seed"])
    viol, obs = [], {}

    async def main(loop, net, log):
        from .. import console as C
        inst = c10.installation(gen, rnd)
        w = AW.ApiWorld(gen, loop, net, log, inst, C.Knobs(latency=case["latency"]))
        it = loop.create_task(w.at.init())
        held = {}

        def zsnap(z):
            d = H.snapshot_zone(z)
            return {k: d[k] for k in _Z_STATUS}

        def asnap(a, zones):
            d = H.snapshot_ac(a)
            out = {k: d[k] for k in _A_STATUS}
            if zones:
                out["zones"] = {z.zone_id: zsnap(z) for z in a.zones}
            return out

        while not it.done():
            for a in w.at.air_conditioners:
                if ("ac", a.ac_id) not in held:
                    s1 = H.Sub(log, f"ac:{a.ac_id}", hashv=rnd.getrandbits(20))
                    s2 = H.Sub(log, f"ac_state:{a.ac_id}", hashv=rnd.getrandbits(20))
                    a.subscribe(s1)
                    a.subscribe_ac_state(s2)
                    held["ac", a.ac_id] = (s1, a, True, None)
                    held["ac_state", a.ac_id] = (s2, a, False, asnap(a, False))
                for z in a.zones:
                    if ("zone", z.zone_id) not in held:
                        s3 = H.Sub(log, f"zone:{z.zone_id}", hashv=rnd.getrandbits(20))
                        z.subscribe(s3)
                        held["zone", z.zone_id] = (s3, z, None, zsnap(z))
                # the general subscriber also hears about zones: its reference is the state of
                # the unit and of the zones it listed when the last of them was seen
                s1, _a, _f, before = held["ac", a.ac_id]
                if before is None or set(before["zones"]) != {z.zone_id for z in a.zones}:
                    if not s1.calls:
                        held["ac", a.ac_id] = (s1, a, True, asnap(a, True))
            await asyncio.sleep(case["poll"])
        ok = await it
        await quiesce(loop)
        if ok is not True:
            viol.append({"mechanism": "init-failed-on-plain-console", "detail": {"ret": ok}})
            return
        for (kind, ent), (sub, obj, zones, before) in held.items():
            now = zsnap(obj) if kind == "zone" else asnap(obj, zones)
            if before is None or set(before.get("zones", ())) != set(now.get("zones", ())):
                continue
            if now != before:
                obs["subscribed_during_init_and_entity_changed"] = obs.get(
                    "subscribed_during_init_and_entity_changed", 0) + 1
                if not sub.calls:
                    diff = {k: (before[k], now[k]) for k in now if before[k] != now[k]}
                    viol.append({"mechanism": "subscriber-not-called-on-change:during-init",
                                 "detail": {"subscriber": sub.name, "changed": H.jsonable(diff)}})
            else:
                obs["subscribed_during_init_entity_unchanged"] = obs.get(
                    "subscribed_during_init_entity_unchanged", 0) + 1
        await w.at.shutdown()

    _, log, st = H.run(main)
    if st != "ok":
        viol.append({"mechanism": "subscriber-world-hang", "detail": {"status": st}})
    dec = obs.get("subscribed_during_init_and_entity_changed", 0)
    return {"violations": H.cap(viol), "evals": max(dec, 1), "decided": dec, "distinct": dec,
            "obs": obs, "sample": {"gen": gen, "midinit": True}}


def run_case(case):
    if case.get("k") == "midinit":
        return run_midinit(case)
    gen = case["gen"]
    rnd = random.Random(case["seed"])
    viol = []
    obs = {}
    sample = {}

    async def main(loop, net, log):
        w = AW.ModelWorld(gen, loop, net, log, c10.installation(gen, rnd))
        ok = await w.init_and_sync()
        if ok is not True:
            viol.append({"mechanism": "init-failed-on-plain-console", "detail": {"ret": ok}})
            return
        at = w.at
        early = None
        if case.get("reinit"):
            # subscribers are attached to the objects of a SECOND init of the same client;
            # one AirTouch-level subscriber was registered in the FIRST life already and is
            # never taken off: the client object is the same, so it keeps being served
            early = H.Sub(log, "at:early", hashv=rnd.getrandbits(20))
            at.subscribe(early)
            await at.shutdown()
            await quiesce(loop)
            from ..refmodel import RefModel
            w.model = RefModel(gen)
            w._bufs.clear()
            w.feed()            # discard what was delivered before
            w.model = RefModel(gen)
            if await w.init_and_sync() is not True:
                viol.append({"mechanism": "reinit-failed", "detail": {}})
                return
            obs["after_reinit"] = 1
        subs = []   # dict(sub, kind, ent, target, subscribed)
        mask = case["raise_mask"]

        def mk(kind, ent, target, attach, detach):
            i = len(subs)
            # (random hashes: every case calls its subscribers in another order, so a raising
            # one is sometimes first, sometimes last)
            s = H.Sub(log, f"{kind}:{ent}:{i}", raises=bool(mask >> (i % 4) & 1) and i < 8,
                      hashv=rnd.getrandbits(20))
            if s.raises:
                # what it raises: an ordinary exception, a time-out of its own, or the
                # cancellation of something it awaited
                s.raises = rnd.choice([True, True, "timeout", "cancelled"])
                if s.raises is True and (case["seed"] + i) % 5 == 0:
                    s.raises = "badstr"
                    obs["subscribers_raising_unprintable_exceptions"] = obs.get(
                        "subscribers_raising_unprintable_exceptions", 0) + 1
                if s.raises == "cancelled":
                    obs["subscribers_ending_cancelled"] = obs.get(
                        "subscribers_ending_cancelled", 0) + 1
            # a third of the subscribers are registered as bound methods: every subscribe /
            # unsubscribe call then passes an equal but not identical callable
            bound = rnd.random() < 0.35
            fn = (lambda: s.on_update) if bound else (lambda: s)
            if bound:
                obs["bound_method_subscribers"] = obs.get("bound_method_subscribers", 0) + 1
            elif s.raises and rnd.random() < 0.4:
                # a raising subscriber that fails when it is called, not when it is awaited
                fn = s.failing_when_called
                obs["subscribers_failing_when_called"] = obs.get(
                    "subscribers_failing_when_called", 0) + 1
            subs.append({"sub": s, "kind": kind, "ent": ent,
                         "attach": lambda _x, a=attach, f=fn: a(f()),
                         "detach": lambda _x, d=detach, f=fn: d(f()),
                         "on": False, "twice": False})
            return s

        mk("at", at.airtouch_id, at, at.subscribe, at.unsubscribe)
        mk("at", at.airtouch_id, at, at.subscribe, at.unsubscribe)
        if early is not None:
            subs.append({"sub": early, "kind": "at", "ent": at.airtouch_id,
                         "attach": lambda _x: at.subscribe(early),
                         "detach": lambda _x: at.unsubscribe(early), "on": True, "twice": False,
                         "early": True})
            obs["subscriber_kept_across_reinit"] = 1
        zone_owner = {}
        for ac in at.air_conditioners:
            mk("ac", ac.ac_id, ac, ac.subscribe, ac.unsubscribe)
            mk("ac_state", ac.ac_id, ac, ac.subscribe_ac_state, ac.unsubscribe_ac_state)
            mk("ac", ac.ac_id, ac, ac.subscribe, ac.unsubscribe)
            for z in ac.zones:
                zone_owner.setdefault(z.zone_id, []).append(ac.ac_id)
                mk("zone", z.zone_id, z, z.subscribe, z.unsubscribe)
        # one callable per AC that the application registers on BOTH channels of that AC
        # (subscribe and subscribe_ac_state) and takes off them independently, in any order
        duals = []
        for ac in at.air_conditioners:
            d = {"sub": H.Sub(log, f"dual:{ac.ac_id}", hashv=rnd.getrandbits(20)), "ac": ac,
                 "ent": ac.ac_id, "g": False, "st": False}
            duals.append(d)

        def toggle_dual(d):
            ch = rnd.choice(["g", "st"])
            ac = d["ac"]
            if d[ch]:
                (ac.unsubscribe if ch == "g" else ac.unsubscribe_ac_state)(d["sub"])
            else:
                (ac.subscribe if ch == "g" else ac.subscribe_ac_state)(d["sub"])
            d[ch] = not d[ch]
            obs["same_callable_on_both_ac_channels"] = obs.get(
                "same_callable_on_both_ac_channels", 0) + (1 if d["g"] and d["st"] else 0)

        for d in duals:
            for _ in range(rnd.randint(0, 3)):
                toggle_dual(d)
        # subscribers that are bound methods of objects which nothing but the subscription
        # refers to (x.subscribe(Listener().on_update)): they stay subscribed - and alive
        import gc

        class _Listener:
            def __init__(self, sub):
                self.sub = sub

            async def on_update(self, *a, **kw):
                return await self.sub(*a, **kw)

        orphans = []
        targets = [("at", "airtouch", None, at.subscribe)]
        for ac in at.air_conditioners:
            targets.append(("ac", "ac", ac.ac_id, ac.subscribe))
            targets.append(("ac_state", "ac", ac.ac_id, ac.subscribe_ac_state))
            for z in ac.zones:
                targets.append(("zone", "zone", z.zone_id, z.subscribe))
        for kind, ck, ent, attach in rnd.sample(targets, min(3, len(targets))):
            o = {"sub": H.Sub(log, f"orphan:{kind}:{ent}", hashv=rnd.getrandbits(20)),
                 "kind": kind, "ck": ck, "ent": ent}
            attach(_Listener(o["sub"]).on_update)
            orphans.append(o)
        gc.collect()
        # one callable that the application registers on a zone AND on the air-conditioner
        # owning it (it tells the two apart by the identifier it is called with)
        shared = []
        for ac in at.air_conditioners:
            zs = list(ac.zones)
            if zs and rnd.random() < 0.6:
                z = rnd.choice(zs)
                sh = {"sub": H.Sub(log, f"shared:z{z.zone_id}:ac{ac.ac_id}",
                                   hashv=rnd.getrandbits(20)), "zone": z.zone_id, "ac": ac.ac_id}
                z.subscribe(sh["sub"])
                ac.subscribe(sh["sub"])
                shared.append(sh)
        # one handler for all zones (it is told which zone by the identifier): a frame that
        # changes several of them calls it once per changed zone
        # (own generator: the rest of the case keeps the random choices it had before)
        rnd_multi = random.Random(case["seed"] ^ 0x5A5A5A)
        multi = None
        all_zones = [z for ac in at.air_conditioners for z in ac.zones]
        if len(all_zones) >= 2 and rnd_multi.random() < 0.6:
            multi = {"sub": H.Sub(log, "multi:zones", hashv=rnd_multi.getrandbits(20)),
                     "zones": sorted({z.zone_id for z in all_zones})}
            for z in all_zones:
                z.subscribe(multi["sub"])
        for s in subs:
            if s.get("early"):
                continue
            if rnd.random() < 0.85:
                s["attach"](s["sub"])
                s["on"] = True
                if rnd.random() < 0.3:
                    s["attach"](s["sub"])
                    s["twice"] = True
        def arm_one_shot(s):
            # a "wait for the next update" helper: unsubscribes itself from inside its own
            # callback, while the client is still going through its subscribers
            def act():
                s["detach"](s["sub"])
                s.setdefault("pending", []).append("off")
                obs["self_unsubscribed_in_callback"] = obs.get(
                    "self_unsubscribed_in_callback", 0) + 1
            s["sub"].action = act

        def arm_subscribe_other(s):
            others = [o for o in subs if o is not s and not o["on"] and o["kind"] == s["kind"]
                      and o["ent"] == s["ent"]]
            if not others:
                return
            o = others[0]

            def act():
                o["attach"](o["sub"])
                o.setdefault("pending", []).append("on")
                obs["subscribed_other_in_callback"] = obs.get(
                    "subscribed_other_in_callback", 0) + 1
            s["sub"].action = act

        last_raw = None
        for step in range(case["n"]):
            if duals and rnd.random() < 0.35:
                toggle_dual(rnd.choice(duals))
            if rnd.random() < 0.3:
                cand = [x for x in subs if x["on"] and not x["twice"] and x["sub"].action is None]
                if cand:
                    (arm_one_shot if rnd.random() < 0.7 else arm_subscribe_other)(rnd.choice(cand))
            # subscribe / unsubscribe placements
            if rnd.random() < 0.25:
                s = rnd.choice(subs)
                if s["on"]:
                    s["detach"](s["sub"])
                    s["on"] = False
                    s["twice"] = False
                else:
                    s["attach"](s["sub"])
                    s["on"] = True
            if last_raw is not None and rnd.random() < 0.33:
                raw = last_raw
                obs["repeat_frames"] = obs.get("repeat_frames", 0) + 1
            elif rnd.random() < 0.35:
                raw = c10.one_field_frame(gen, rnd, w, obs)
            else:
                raw = c10.make_frame(gen, rnd, w, None, obs)
            last_raw = raw
            mark = log.mark()
            conns_before = len(net.conns)
            if not await w.inject(raw):
                break
            changes = w.feed()
            calls = {}
            for seq, t, kind, d in log.since(mark):
                if kind == "SUB.call":
                    calls.setdefault(d["name"], []).append(d["args"])
            if len(net.conns) != conns_before or net.current() is None:
                viol.append({"mechanism": "connection-reset-while-notifying",
                             "detail": {"frame": raw}})
                break
            for s in subs:
                name = s["sub"].name
                got = calls.get(name, [])
                if "on" in s.get("pending", ()):
                    # subscribed from inside another callback during this very frame: being
                    # called for it or not is both fine
                    continue
                rel = []
                for ch in changes:
                    _, ck, cid, exposed, rec = ch
                    if s["kind"] == "at" and ck == "airtouch":
                        rel.append((exposed, rec, "self"))
                    elif s["kind"] in ("ac", "ac_state") and ck == "ac" and cid == s["ent"]:
                        rel.append((exposed, rec, "self"))
                    elif s["kind"] == "ac" and ck == "zone" and s["ent"] in zone_owner.get(cid, []):
                        rel.append((exposed, rec, "zone"))
                    elif s["kind"] == "zone" and ck == "zone" and cid == s["ent"]:
                        rel.append((exposed, rec, "self"))
                must = any(e is True for e, r, _ in rel)
                upper = sum(1 for e, r, _ in rel if r is not False)
                may = any(r is not False for e, r, _ in rel)
                info = {"subscriber": name, "calls": len(got), "frame": raw, "step": step,
                        "changes": H.jsonable([c[1:] for c in changes][:6]),
                        "twice": s["twice"], "raises": s["sub"].raises}
                for args in got:
                    if tuple(args) != (s["ent"],):
                        viol.append({"mechanism": "subscriber-called-with-wrong-identifier",
                                     "detail": dict(info, args=args)})
                if not s["on"]:
                    if got:
                        viol.append({"mechanism": "unsubscribed-subscriber-called",
                                     "detail": info})
                    elif may:
                        obs["unsubscribed_silent"] = obs.get("unsubscribed_silent", 0) + 1
                    continue
                if must and not got:
                    viol.append({"mechanism": f"subscriber-not-called-on-change:{s['kind']}",
                                 "detail": info})
                elif must:
                    obs["must_verdicts"] = obs.get("must_verdicts", 0) + 1
                    if any(k == "zone" for _, _, k in rel) and s["kind"] == "ac":
                        obs["zone_to_ac_forwarding"] = obs.get("zone_to_ac_forwarding", 0) + 1
                    if s["twice"]:
                        obs["double_subscription"] = obs.get("double_subscription", 0) + 1
                if not may and got:
                    viol.append({"mechanism": f"subscriber-called-without-change:{s['kind']}",
                                 "detail": info})
                elif not may:
                    obs["must_not_verdicts"] = obs.get("must_not_verdicts", 0) + 1
                if len(got) > upper and may:
                    viol.append({"mechanism": f"subscriber-called-more-often-than-changes:{s['kind']}",
                                 "detail": dict(info, upper=upper)})
                if s["sub"].raises and got:
                    obs["raising_subscribers"] = obs.get("raising_subscribers", 0) + 1
            for d in duals:
                got = calls.get(d["sub"].name, [])
                acc = [ch for ch in changes if ch[1] == "ac" and ch[2] == d["ent"]]
                zch = [ch for ch in changes if ch[1] == "zone"
                       and d["ent"] in zone_owner.get(ch[2], [])]
                on_any = d["g"] or d["st"]
                must = (on_any and any(ch[3] is True for ch in acc)) or \
                       (d["g"] and any(ch[3] is True for ch in zch))
                may = (on_any and any(ch[4] is not False for ch in acc)) or \
                      (d["g"] and any(ch[4] is not False for ch in zch))
                info = {"subscriber": d["sub"].name, "calls": len(got), "frame": raw, "step": step,
                        "general": d["g"], "ac_state": d["st"]}
                if must and not got:
                    viol.append({"mechanism": "subscriber-not-called-on-change:ac_both_channels",
                                 "detail": info})
                elif not may and got:
                    viol.append({"mechanism": ("unsubscribed-subscriber-called" if not on_any else
                                               "subscriber-called-without-change:ac_both_channels"),
                                 "detail": info})
                elif must:
                    obs["must_verdicts"] = obs.get("must_verdicts", 0) + 1
            for o in orphans:
                got = calls.get(o["sub"].name, [])
                must = any(ch[1] == o["ck"] and (o["ent"] is None or ch[2] == o["ent"])
                           and ch[3] is True for ch in changes)
                if must:
                    obs["subscriber_whose_owner_only_the_subscription_holds"] = obs.get(
                        "subscriber_whose_owner_only_the_subscription_holds", 0) + 1
                    if not got:
                        viol.append({"mechanism": "subscriber-not-called-on-change:"
                                     "owner_held_by_subscription_only",
                                     "detail": {"subscriber": o["sub"].name, "frame": raw,
                                                "step": step}})
            if step % 5 == 0:
                gc.collect()
            if multi is not None:
                got = [a[0] if a else None for a in calls.get(multi["sub"].name, [])]
                due = sorted({ch[2] for ch in changes if ch[1] == "zone" and ch[3] is True
                              and ch[2] in multi["zones"]})
                if len(due) >= 2:
                    obs["one_callable_on_several_zones_changed_together"] = obs.get(
                        "one_callable_on_several_zones_changed_together", 0) + 1
                miss = [zid for zid in due if zid not in got]
                if miss:
                    viol.append({"mechanism": "subscriber-not-called-on-change:"
                                 "one_callable_on_several_zones",
                                 "detail": {"got_ids": got, "missing_ids": miss, "due": due,
                                            "frame": raw, "step": step}})
            for sh in shared:
                got = [a[0] if a else None for a in calls.get(sh["sub"].name, [])]
                zmust = any(ch[1] == "zone" and ch[2] == sh["zone"] and ch[3] is True
                            for ch in changes)
                if zmust:
                    obs["same_callable_on_zone_and_owning_ac"] = obs.get(
                        "same_callable_on_zone_and_owning_ac", 0) + 1
                    miss = [w_ for w_ in (sh["zone"], sh["ac"]) if w_ not in got]
                    # (zone id and AC id may be the same number: then two calls are due)
                    if sh["zone"] == sh["ac"] and got.count(sh["zone"]) < 2:
                        miss = [sh["zone"]]
                    if miss:
                        viol.append({"mechanism": "subscriber-not-called-on-change:"
                                     "zone_and_owning_ac",
                                     "detail": {"subscriber": sh["sub"].name, "got_ids": got,
                                                "missing_ids": miss, "frame": raw,
                                                "step": step}})
            for s in subs:
                # what was done from inside callbacks takes effect in the order it happened
                for what in s.pop("pending", ()):
                    s["on"] = what == "on"
                    s["twice"] = False
            # the model itself must still be right (a raising subscriber must not derail it)
            dd = RM.diff(w.model.expected(), H.snapshot(at))
            if dd:
                viol.append({"mechanism": "model-derailed-by-subscribers",
                             "detail": {"diff": dd[:3], "frame": raw}})
                break
            sample.setdefault("frame", raw)
            sample.setdefault("subscribers", len(subs))
            if viol:
                break
        bad = [e for e in log.events if e[2] == "LOOP.unhandled"]
        if bad:
            viol.append({"mechanism": "subscriber-exception-escaped",
                         "detail": H.jsonable(bad[:2])})
        await w.at.shutdown()

    _, log, st = H.run(main)
    if st != "ok":
        viol.append({"mechanism": "subscriber-world-hang", "detail": {"status": st}})
    dec = obs.get("must_verdicts", 0) + obs.get("must_not_verdicts", 0)
    return {"violations": H.cap(viol), "evals": max(dec, case["n"]), "decided": dec, "distinct": dec,
            "obs": obs, "sample": {"gen": gen, **sample}}
