"""C01 — accepted commands reach the wire once each, in order, unsubstituted."""

from __future__ import annotations

import random

from .. import harness as H
from .. import refproto as R
from .. import sockscript as S

ID = "C01"
LEVEL = "exploration"
EXHAUSTIVE = {"quick": False, "thorough": False}
RULE = ("Seeded random and directed scripts over {send(kind in zone/AC control/quick timer, "
        "policy, inline or from one of several sender tasks), clock advance, connect refusal, "
        "accept with latency, peer FIN, writer stall/resume} against a real AirTouchSocket of "
        "either registry; 1..10 messages pending at a time, lifetimes straddled, one long run "
        "per generation beyond the 256-value packet counter. Every message carries a unique "
        "serial in its payload; the bytes seen per simulated connection are parsed with the "
        "reference framing and compared with the acceptance history. Non-trivial = at least one "
        "accepted message was attributed to a frame at the console; distinct = distinct op lists.")
ASSUMPTIONS = ["no write faults are injected here (C02/C07 do that)",
               "a write the client attempted on a transport it had itself closed "
               "(NET.write_ignored) counts as a write fault for that message",
               "send() has no suspension point before it enqueues, so call order is acceptance "
               "order"]
REQUIRED_OBS = ["frames_attributed", "queued_while_down_then_sent", "multi_pending_outages",
                "sent_while_connected", "packet_id_wraps"]
SOAK = True   # also judged by the whole-run monitors of the soak sessions (vf/soak.py)
BUDGET = {"quick": 100, "thorough": 1500}

EPS = 1e-6


def gen_script(rnd, long=False):
    ops = []
    # initial network condition
    r = rnd.random() if not long else 1.0   # (the long script starts on a healthy link)
    if r < 0.4:
        for _ in range(rnd.randint(1, 3)):
            ops.append(["net", "refuse", rnd.choice([0.0, 0.1])])
    elif r < 0.6:
        ops.append(["net", "accept", rnd.choice([0.5, 1.0, 3.0])])
    n = rnd.randint(3, 14) if not long else 700
    pending_budget = 0
    for i in range(n):
        c = rnd.random()
        if c < 0.55 or long:
            kind = rnd.choice(S.KINDS)
            pol = rnd.choice(["idem", "idem", "nonidem", "conn", "short", "long"] * 3
                             + ["zero", "neg", "hour", "forever"])
            mode = rnd.choice(["inline", "inline", "t1", "t2", "t3"])
            ops.append(["send", kind, pol, mode])
            if long and i % 97 == 50:
                ops.append(["fin"])
                ops.append(["net", "refuse", 0.0])
            if long and i % 97 == 58:
                ops.append(["adv", 2.5])
        elif c < 0.72:
            ops.append(["adv", rnd.choice([0, 0, 0.001, 0.4, 0.5 - EPS, 0.5, 1.0 - EPS, 1.0,
                                           2.0, 2.0 + EPS, 5.0, 29.9, 31.0])])
        elif c < 0.8:
            ops.append(["fin"])
            if rnd.random() < 0.6:
                for _ in range(rnd.randint(1, 2)):
                    ops.append(["net", "refuse", 0.0])
        elif c < 0.86:
            ops.append(["net", rnd.choice(["refuse", "accept", "refuse", "accept", "timeout",
                                           "unreachable", "gaierror"]),
                        rnd.choice([0.0, 0.3, 2.5])])
        elif c < 0.89:
            ops.append([rnd.choice(["on_connect_send", "on_connect_send", "on_disconnect_send"]),
                        rnd.choice(S.KINDS), rnd.choice(["idem", "long"])])
        elif c < 0.93:
            ops.append(["stall"])
            for _ in range(rnd.randint(1, 3)):
                ops.append(["send", rnd.choice(S.KINDS), "idem", rnd.choice(["t1", "t2", "t3"])])
            ops.append(["turns", rnd.randint(0, 3)])
            if rnd.random() < 0.3:
                ops.append(["cancel_sends"])
            ops.append(["unstall"])
        elif c < 0.94:
            ops.append(["q"])
        elif c < 0.95:
            ops.append(rnd.choice([["slow_conn", rnd.choice([0.5, 2.5])], ["reset"]]))
        elif c < 0.975:
            # a message no frame has room for (its header may well encode): dropped, and
            # nothing of it may reach the wire
            ops.append(["send_bad", rnd.choice(["struct", "value", "unregistered"]),
                        rnd.choice(["inline", "t1", "hdr", "hdr_same"])])
        else:
            ops.append(["open"])   # open_socket() on a socket that is open already: a no-op
    return ops


def directed():
    """n pending x {connected, down} x policy mixes x connect instants."""
    out = []
    for n in range(1, 11):
        for pols in (["idem"], ["nonidem"], ["idem", "nonidem", "long"], ["short", "idem"]):
            # queued while the link is down, then it comes up
            for delay in (0.0, 0.3, 1.9):
                ops = [["net", "refuse", 0.0]]
                ops += [["send", S.KINDS[i % 3], pols[i % len(pols)], "inline"]
                        for i in range(n)]
                ops += [["adv", delay]]
                out.append(ops)
            # sent while connected
            ops = [["q"]] + [["send", S.KINDS[i % 3], pols[i % len(pols)],
                              "inline" if i % 2 else "t1"] for i in range(n)]
            out.append(ops)
    # a message submitted from inside the connected notification, with others already queued
    for n in (0, 1, 3):
        out.append([["net", "refuse", 0.0]] + [["send", S.KINDS[i % 3], "long", "inline"]
                                               for i in range(n)]
                   + [["on_connect_send", "quick_timer", "idem"], ["adv", 3.0],
                      ["send", "ac_ctrl", "idem", "inline"]])
    # reset_connection() from another task (what the heartbeat does) while a connection
    # subscriber is still busy with connected=True; messages accepted before, during and after
    for busy in (1.0, 3.0):
        for when in (0.5, busy + 0.5):
            out.append([["net", "refuse", 0.0], ["slow_conn", busy],
                        ["send", "zone_ctrl", "long", "inline"], ["adv", 2.0 + when],
                        ["reset"], ["send", "ac_ctrl", "long", "t1"], ["adv", busy + 3.0],
                        ["send", "quick_timer", "long", "inline"], ["adv", 3.0]])
            out.append([["q"], ["slow_conn", busy], ["fin"], ["adv", when], ["reset"],
                        ["send", "ac_ctrl", "idem", "t1"], ["adv", busy + 5.0],
                        ["send", "zone_ctrl", "idem", "inline"], ["adv", 3.0]])
    # the application cancels sends that are suspended on a stalled link (a time-out around
    # them); whatever was handed to the transport goes out once, later traffic is unaffected
    for k in (1, 3):
        for turns in (1, 3):
            out.append([["q"], ["stall"]]
                       + [["send", S.KINDS[i % 3], ("idem", "nonidem", "long")[i % 3], f"t{i + 1}"]
                          for i in range(k)]
                       + [["turns", turns], ["cancel_sends"], ["unstall"], ["adv", 0.5],
                          ["send", "zone_ctrl", "idem", "inline"], ["fin"], ["adv", 3.0],
                          ["send", "ac_ctrl", "idem", "inline"], ["adv", 1.0]])
    # a console that stops reading for a long time while a message is being written, and then
    # reads again: no fault ever occurs, everything arrives once
    for graceful in (False, True):
        for pause in (5.0, 12.0, 35.0, 100.0):
            for pol in ("idem", "long", "nonidem"):
                out.append([["q"], ["stall"] + (["graceful"] if graceful else []),
                            ["send", "zone_ctrl", pol, "t1"], ["adv", pause], ["unstall"],
                            ["adv", 3.0], ["send", "ac_ctrl", "idem", "inline"], ["adv", 1.0]])
    # the console is behind on reading when the link is reset for some other reason (the
    # heartbeat's reset_connection(), a damaged frame): what is waiting in the write buffer
    # still goes out when the console reads again
    for why in (["reset"], ["data", "00ff13377f55aa00ff13377f55aa00ff13377f55aa"]):
        out.append([["q"], ["stall", "graceful"], ["send", "zone_ctrl", "idem", "t1"],
                    ["send", "ac_ctrl", "long", "t2"], ["turns", 3], why, ["adv", 1.0],
                    ["unstall"], ["adv", 4.0], ["send", "quick_timer", "idem", "inline"],
                    ["adv", 1.0]])
    # accepted on a healthy link and the socket closed in the very next statement: what send()
    # has accepted while connected is on the wire when it returns
    for n in (1, 3):
        out.append([["q"]] + [["send", S.KINDS[i % 3], "idem", "inline"] for i in range(n)]
                   + [["close"]])
        out.append([["q"]] + [["send", S.KINDS[i % 3], "long", "hdr"] for i in range(n)]
                   + [["close"], ["open"], ["adv", 3.0], ["send", "zone_ctrl", "idem", "inline"]])
    # the application re-opens the socket and sends from inside the disconnected notification
    # that close() itself emits: that message belongs to the new session
    for pol in ("idem", "long"):
        out.append([["q"], ["on_disconnect_open"], ["on_disconnect_send", "zone_ctrl", pol],
                    ["close"], ["adv", 3.0], ["send", "ac_ctrl", "idem", "inline"],
                    ["adv", 1.0]])
        out.append([["q"], ["send", "quick_timer", "idem", "inline"], ["on_disconnect_open"],
                    ["on_disconnect_send", "zone_ctrl", pol],
                    ["on_disconnect_send", "ac_ctrl", pol], ["close"], ["adv", 3.0]])
    # a lifetime without end: on a healthy link and across an outage
    out.append([["q"], ["send", "zone_ctrl", "forever", "inline"],
                ["send", "ac_ctrl", "idem", "inline"], ["send", "quick_timer", "forever", "t1"],
                ["adv", 1.0]])
    out.append([["net", "refuse", 0.0], ["net", "refuse", 0.0],
                ["send", "zone_ctrl", "forever", "inline"], ["send", "ac_ctrl", "long", "inline"],
                ["send", "quick_timer", "forever", "inline"], ["adv", 6.0]])
    # a caller that supplies its own headers and uses a packet number again while the earlier
    # message is still waiting: two messages, two frames
    for n in (2, 3, 5):
        out.append([["net", "refuse", 0.0]]
                   + [["send", "zone_ctrl", "long", "hdr_same"] for _ in range(n)]
                   + [["send", "ac_ctrl", "long", "hdr_same"], ["send", "ac_ctrl", "idem", "hdr_same"],
                      ["adv", 4.0]])
        out.append([["q"]] + [["send", "zone_ctrl", "idem", "hdr_same"] for _ in range(n)]
                   + [["adv", 1.0]])
    # an unencodable message between good ones, sent at once and held for the next connection
    for how in ("struct", "value"):
        out.append([["q"], ["send", "zone_ctrl", "idem", "inline"], ["send_bad", how, "inline"],
                    ["send", "ac_ctrl", "idem", "inline"], ["send_bad", how, "t1"],
                    ["send", "quick_timer", "idem", "t2"]])
        out.append([["net", "refuse", 0.0], ["send", "zone_ctrl", "idem", "inline"],
                    ["send_bad", how, "inline"], ["send", "ac_ctrl", "idem", "inline"],
                    ["adv", 3.0], ["send", "quick_timer", "idem", "inline"]])
    # expiry straddling: lifetime 0.5 / 1.0 vs reconnection after 2 s
    for pol, L in (("short", 0.5), ("conn", 1.0), ("idem", 30.0)):
        for d in (L - 1e-3, L - EPS, L, L + EPS, L + 1e-3):
            if d < 0:
                continue
            out.append([["net", "accept", d], ["send", "zone_ctrl", pol, "inline"],
                        ["send", "ac_ctrl", "long", "inline"], ["adv", d + 1.0]])
    return out


def cases(tier, seed):
    rnd = random.Random(f"C01/{tier}/{seed}")
    # anchors: minimal witness of D1 (second message queued while down replaced by first)
    for gen in (4, 5):
        yield {"gen": gen, "ops": [["net", "refuse", 0.0], ["send", "zone_ctrl", "idem", "inline"],
                                   ["send", "ac_ctrl", "idem", "inline"],
                                   ["send", "quick_timer", "idem", "inline"],
                                   ["send", "zone_ctrl", "idem", "inline"], ["adv", 3.0]],
               "anchor": "D1"}
    for gen in (4, 5):
        for ops in directed():
            yield {"gen": gen, "ops": ops}
        yield {"gen": gen, "ops": gen_script(random.Random(f"long{gen}{seed}"), long=True),
               "long": True}
    n = 250 if tier == "quick" else 150000
    for i in range(n):
        yield {"gen": rnd.choice((4, 5)), "ops": gen_script(rnd)}


def check(gen, run):
    """The C01 oracle over the recorded history.  Returns (violations, obs)."""
    viol = []
    obs = {}
    log = run.log

    def v(mech, **d):
        viol.append({"mechanism": mech, "detail": d, "log": None})

    if run.status != "ok":
        v("socket-scenario-hang", status=run.status)
        return viol, obs
    aborted = [d for _, _, k, d in log.events if k == "NET.abort" and d["dropped"]]
    if aborted:
        # the client itself threw away bytes of frames whose send() had returned (the
        # transport was aborted with data still waiting for a slow reader)
        v("written-frames-discarded-by-the-client", conn=aborted[0]["conn"],
          bytes_dropped=aborted[0]["dropped"])
    mutated = [d for _, _, k, d in log.events if k == "NET.write_mutated"]
    if mutated:
        # what was handed to the transport while the peer was not reading was changed before
        # it could be sent: the bytes on the wire are not the frame of that message
        v("bytes-changed-between-write-and-transmission", conn=mutated[0]["conn"],
          written=mutated[0]["written"], sent=mutated[0]["sent"], count=len(mutated))
    by = S.frames_by_conn(gen, log)
    # connection intervals by seq
    opens, closes = {}, {}
    for seq, t, kind, d in log.events:
        if kind == "NET.open":
            opens[d["conn"]] = (seq, t)
        elif kind == "NET.close":
            closes[d["conn"]] = (seq, t)
    ignored = b"".join(d["data"] for _, _, k, d in log.events if k == "NET.write_ignored")

    expected_by_payload = {}
    for rec in run.sends:
        if rec["data"] is not None:
            expected_by_payload[(rec["typ"], bytes(rec["data"]))] = rec

    seen_serials = []
    for cid in sorted(by):
        b = by[cid]
        if b["err"] or b["rest"]:
            v("bytes-on-wire-not-whole-frames", conn=cid, error=b["err"], rest=b["rest"],
              raw=b["raw"][-80:])
        for inf in b["frames"]:
            f = inf["frame"]
            if not f.crc_ok:
                v("frame-crc-wrong", raw=f.raw)
            if f.frm != R.ADDR_CLIENT or f.to != R.expected_to_address(f):
                v("frame-address-wrong", raw=f.raw)
            rec = expected_by_payload.get((f.typ, bytes(f.data)))
            if rec is None:
                v("frame-never-submitted", raw=f.raw)
                continue
            seen_serials.append((inf["seq"], inf["t"], cid, rec["serial"]))
    seen_serials.sort()
    obs["frames_attributed"] = len(seen_serials)
    # exactly once
    cnt = {}
    for _, _, _, s in seen_serials:
        cnt[s] = cnt.get(s, 0) + 1
    for s, c in cnt.items():
        if c > 1:
            v("message-transmitted-more-than-once", serial=s, times=c)

    # which accepted messages had to be transmitted
    accepted = [r for r in run.sends if r["outcome"] in ("ok", "pending")
                and r["data"] is not None and "call_seq" in r]
    expected = []
    pending_down = 0
    for r in accepted:
        cs, ct = r["call_seq"], r["call_t"]
        expiry = ct + r["policy"][1]
        # connected at accept?
        live = [cid for cid, (oseq, ot) in opens.items()
                if oseq < cs and (cid not in closes or closes[cid][0] > cs)]
        when = None
        if live and ct >= expiry:
            # a lifetime of zero or less: no instant lies within it, connected or not
            obs["expired_when_accepted"] = obs.get("expired_when_accepted", 0) + 1
        elif live:
            when = ct
            obs["sent_while_connected"] = obs.get("sent_while_connected", 0) + 1
        else:
            later = sorted((oseq, ot) for cid, (oseq, ot) in opens.items() if oseq > cs)
            if later and later[0][1] < expiry:
                when = later[0][1]
                obs["queued_while_down_then_sent"] = obs.get("queued_while_down_then_sent", 0) + 1
            pending_down += 1
        wire = S.R.frame(gen, 0, 0, 0, r["typ"], r["data"])  # payload only used below
        if when is not None:
            # exempt: the client itself hit a dead transport with this message
            body = bytes(r["data"])
            if body and body in ignored:
                obs["exempt_write_to_closed_transport"] = obs.get(
                    "exempt_write_to_closed_transport", 0) + 1
                continue
            expected.append((r, when))
    exp_serials = [r["serial"] for r, _ in expected]
    got_serials = [s for _, _, _, s in seen_serials]
    got_set = set(got_serials)
    # (where the application itself holds up the flush - a connection subscriber busy with
    # connected=True, a reset_connection() of its own - a message whose lifetime ends before
    # the application is done is not owed a transmission)
    app_busy_until = max([t + d["delay"] for _, t, k, d in log.events if k == "SUB.conn_slow"]
                         + [t + 5.0 for _, t, k, d in log.events
                            if k == "API.call" and d.get("name") == "reset"] + [0.0])
    for r, when in expected:
        if r["serial"] not in got_set:
            if r["call_t"] <= app_busy_until and r["call_t"] + r["policy"][1] <= app_busy_until:
                obs["expired_while_the_application_held_up_the_flush"] = obs.get(
                    "expired_while_the_application_held_up_the_flush", 0) + 1
                continue
            v("accepted-message-never-transmitted", serial=r["serial"], policy=r["policy"],
              accepted_at=r["call_t"], connection_at=when)
    # nothing transmitted that should have expired / was not accepted
    # (a send the application cancelled while it was under way had been accepted: it may have
    # reached the wire - once - or not)
    acc_set = {r["serial"] for r in accepted} | {r["serial"] for r in run.sends
                                                 if r["outcome"] == "cancelled"}
    for seq, t, cid, s in seen_serials:
        rec = next(r for r in run.sends if r["serial"] == s)
        if s not in acc_set:
            v("rejected-message-transmitted", serial=s, outcome=rec["outcome"])
        # (exactly the client's own arithmetic: expiry = time of the call + lifetime, compared
        # as floats; an instant one ulp before the expiry is before the expiry)
        if t >= rec["call_t"] + rec["policy"][1]:
            v("message-transmitted-after-expiry", serial=s, at=t,
              expiry=rec["call_t"] + rec["policy"][1])
    # order: transmitted sequence must be a subsequence-preserving image of acceptance order
    called = sorted((r for r in run.sends if "call_seq" in r), key=lambda r: r["call_seq"])
    order = {r["serial"]: i for i, r in enumerate(called)}
    faulted = {r["serial"] for r in run.sends
               if r["data"] is not None and bytes(r["data"]) in ignored}
    idx = [order[s] for s in got_serials if s in order and s not in faulted]
    dedup = []
    for i in idx:
        if i not in dedup:
            dedup.append(i)
    if dedup != sorted(dedup):
        v("messages-transmitted-out-of-acceptance-order", order=dedup[:30])
    # timing: at the instant of acceptance / of the first open after it
    first_seen = {}
    for seq, t, cid, s in seen_serials:
        first_seen.setdefault(s, t)
    # (a connection subscriber of the application that is still busy with connected=True, or
    # a reset_connection() of the application's own, delays the flush by the application's
    # doing: only "transmitted at all, before the expiry" is judged then)
    own_delay = any(k == "SUB.conn_slow" or (k == "API.call" and d.get("name") == "reset")
                    for _, _, k, d in log.events)
    if own_delay:
        obs["flush_delayed_by_the_application"] = 1
    for r, when in expected:
        t = first_seen.get(r["serial"])
        if t is not None and abs(t - when) > 1e-9 and not own_delay:
            v("message-not-transmitted-as-soon-as-connected", serial=r["serial"], at=t,
              expected_at=when)
    # pids
    pids = [inf["frame"].pid for cid in sorted(by) for inf in by[cid]["frames"]]
    if any(pids[i + 1] < pids[i] for i in range(len(pids) - 1)) and len(pids) > 200:
        obs["packet_id_wraps"] = 1
    if pending_down >= 2:
        obs["multi_pending_outages"] = 1
    return viol, obs


def run_case(case):
    gen = case["gen"]
    run = S.run_script(gen, case["ops"], settle=130.0)
    viol, obs = check(gen, run)
    for x in viol:
        x["log"] = H.log_slice(run.log, 30)
    # (a message that cannot be encoded may be refused with the encoder's exception)
    unexpected = [r for r in run.sends if r["outcome"] not in ("ok", "pending", "QueueOverflowError",
                                                              "cancelled")
                  and not r["kind"].startswith("bad:")]
    for r in unexpected:
        viol.append({"mechanism": "send-raised-unexpected-exception",
                     "detail": {"serial": r["serial"], "outcome": r["outcome"]}})
    decided = obs.get("frames_attributed", 0)
    return {"violations": H.cap(viol), "evals": 1, "decided": 1 if decided else 0, "obs": obs,
            "sample": {"gen": gen, "ops": case["ops"][:20], "frames": decided}}
