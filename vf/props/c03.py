"""C03 — every message frames and parses back identically; lengths agree."""

from __future__ import annotations

import random

import pyairtouch.at4.comms.hdr as hdr4
import pyairtouch.at5.comms.hdr as hdr5
import pyairtouch.comms.socket as psock

from .. import frames as F
from .. import harness as H
from .. import msgs as M
from .. import refproto as R
from ..sockworld import SockWorld, quiesce

ID = "C03"
LEVEL = "exploration"
EXHAUSTIVE = {"quick": False, "thorough": False}
RULE = ("Canonical messages of all 36 message/request classes (18 per generation; random field "
        "values in protocol domain, repeat counts 0..16, multi-byte names, directed edge values "
        "such as 0.0 degC) and the decoder image of random valid console frames are sent through "
        "the real AirTouchSocket.send / send_with_header into a simulated transport; the bytes "
        "are judged by the independent reference framing and fed into a second real socket. "
        "Non-trivial = the message was written, reference-parsed and delivered back; distinct = "
        "distinct (class, wire bytes without packet id).")
ASSUMPTIONS = ["refproto framing validated against all vendor example frames",
               "AT5 outer header layout is undocumented by the vendor; taken from hdr.py docstring "
               "and the recorded frame in docs/design.md",
               "empty-collection messages that alias their request on the wire are outside the "
               "canonical domain"]
REQUIRED_OBS = ["roundtrips", "size_checks", "classes_at4", "classes_at5", "image_roundtrips",
                "message_objects_reused_after_change"]
BUDGET = {"quick": 100, "thorough": 1500}


def cases(tier, seed):
    rnd = random.Random(f"C03/{tier}/{seed}")
    for gen in (4, 5):
        yield {"k": "edge", "gen": gen}
    n = 30 if tier == "quick" else 6000
    for i in range(n):
        for gen in (4, 5):
            yield {"k": "canon", "gen": gen, "seed": rnd.randrange(1 << 30), "rounds": 3,
                   "custom_header": i % 3 == 1, "debug_log": i % 10 == 9}
    for i in range(n // 2):
        for gen in (4, 5):
            yield {"k": "image", "gen": gen, "seed": rnd.randrange(1 << 30), "n": 40}


def _check_wire(gen, name, msg, raw, size, sent_hdr, viol, default_addr):
    def v(mech, **d):
        viol.append({"mechanism": mech,
                     "detail": dict(gen=gen, cls=name, message=repr(msg)[:400], raw=raw, **d)})

    frames, rest, err = R.parse_stream(gen, raw)
    if err or rest or len(frames) != 1:
        v("frame-not-well-formed", error=err, rest=len(rest), frames=len(frames), size=size)
        return None
    f = frames[0]
    if not f.crc_ok:
        v("frame-crc-wrong")
    if len(f.data) != size:
        v("size-differs-from-bytes-produced", size=size, produced=len(f.data))
    if f.typ != msg.message_id:
        v("frame-type-wrong", typ=f.typ)
    if default_addr:
        if f.to != R.expected_to_address(f) or f.frm != R.ADDR_CLIENT:
            v("frame-address-wrong", to=f.to, frm=f.frm)
    elif sent_hdr is not None:
        if (f.to, f.frm, f.pid) != (sent_hdr.to_address, sent_hdr.from_address,
                                    sent_hdr.packet_id):
            v("custom-header-not-on-wire", to=f.to, frm=f.frm, pid=f.pid)
    try:
        if f.typ == 0xC0 and gen == 5:
            sub, normal, rlen, rcount, body = R.c0_subheader(f.data)
            if len(body) != normal + rlen * rcount:
                v("c0-subheader-lengths-inconsistent", normal=normal, rlen=rlen, rcount=rcount,
                  body=len(body))
            if sub != msg.sub_message.message_id:
                v("c0-subtype-wrong", sub=sub)
            if f.data[1] != 0:
                v("c0-subheader-byte2-not-zero")
        if f.typ == 0x1F:
            sid = (f.data[0] << 8) | f.data[1]
            if sid != msg.sub_message.message_id:
                v("ext-subid-wrong", sid=sid)
    except (R.Reject, IndexError) as e:
        v("subheader-unreadable", error=repr(e))
    return f


def _copy_into(a, b):
    """Make dataclass instance `a` equal to `b` (same class) without replacing it or any
    nested message object of the same class."""
    import dataclasses
    for f in dataclasses.fields(a):
        va, vb = getattr(a, f.name), getattr(b, f.name)
        if dataclasses.is_dataclass(va) and type(va) is type(vb) and not isinstance(va, type):
            _copy_into(va, vb)
        else:
            setattr(a, f.name, vb)


def _run_msgs(gen, items, custom_header, debug_log, rnd):
    """items: list of (class name, message).  One world, two real sockets."""
    viol = []
    obs = {"roundtrips": 0}
    fps = []
    reg = H.registry(gen)
    Hdr = hdr4.At4Header if gen == 4 else hdr5.At5Header
    size0 = len(H.SIZE.violations)
    checked0 = H.SIZE.checked

    async def main(loop, net, log):
        tx = SockWorld(gen, loop, net, log, host="tx")
        rx = SockWorld(gen, loop, net, log, host="rx")
        await tx.open()
        await rx.open()
        ctx = [c for c in net.conns if c.host == "tx"][0]
        crx = [c for c in net.conns if c.host == "rx"][0]
        for name, msg in items:
            if isinstance(msg, tuple) and msg[0] == "reuse":
                # the application keeps one message object, changes it in place and sends it
                # again (same object - and same sub-message object - other content)
                _copy_into(msg[1], msg[2])
                msg = msg[1]
                obs["message_objects_reused_after_change"] = obs.get(
                    "message_objects_reused_after_change", 0) + 1
            try:
                size = reg.get_encoder(msg.message_id).size(msg)
            except Exception as e:
                viol.append({"mechanism": "size-raises-for-canonical-message",
                             "detail": {"gen": gen, "cls": name, "exc": repr(e)}})
                continue
            mark = len(ctx.written)
            sent_hdr = None
            try:
                if custom_header:
                    # (the addresses that mean something to either side, and any other)
                    addr = [0x80, 0x90, 0x91, 0xB0, 0xB0, 0x00, 0xFF, 0x55, rnd.randint(0, 255)]
                    sent_hdr = Hdr(to_address=rnd.choice(addr),
                                   from_address=rnd.choice(addr),
                                   packet_id=rnd.randint(0, 255), message_id=msg.message_id,
                                   message_length=size)
                    await tx.sock.send_with_header(sent_hdr, msg, psock.RETRY_IDEMPOTENT)
                else:
                    await tx.sock.send(msg, psock.RETRY_IDEMPOTENT)
            except Exception as e:
                viol.append({"mechanism": "send-raises-for-canonical-message",
                             "detail": {"gen": gen, "cls": name, "exc": repr(e),
                                        "message": repr(msg)[:300]}})
                continue
            raw = bytes(ctx.written[mark:])
            if not raw:
                viol.append({"mechanism": "canonical-message-not-written",
                             "detail": {"gen": gen, "cls": name, "message": repr(msg)[:300],
                                        "log": H.log_slice(log, 10)}})
                continue
            f = _check_wire(gen, name, msg, raw, size, sent_hdr, viol, not custom_header)
            n0 = len(rx.msgs)
            crx_open_before = crx.open
            crx.transport.peer_data(raw)
            await quiesce(loop)
            cur = [c for c in net.open_conns() if c.host == "rx"]
            got = rx.msgs[n0:]

            def v(mech, **d):
                viol.append({"mechanism": mech,
                             "detail": dict(gen=gen, cls=name, message=repr(msg)[:400],
                                            raw=raw, **d), "log": H.log_slice(log, 12)})
            if not crx.open or not crx_open_before:
                v("own-frame-rejected-by-receive-path",
                  delivered=[repr(m)[:200] for _, _, m in got])
                # a reset happened: wait for the new connection
                await quiesce(loop)
                cur = [c for c in net.open_conns() if c.host == "rx"]
                if not cur:
                    return
                crx = cur[-1]
                continue
            if len(got) != 1:
                v("own-frame-not-delivered-exactly-once", n=len(got))
                continue
            _, h2, m2 = got[0]
            if m2 != msg:
                a, b = repr(msg), repr(m2)
                i = next((j for j in range(min(len(a), len(b))) if a[j] != b[j]),
                         min(len(a), len(b)))
                v("message-differs-after-roundtrip", sent_at_diff=a[max(0, i - 40):i + 30],
                  got_at_diff=b[max(0, i - 40):i + 30])
            if f is not None and (h2.to_address, h2.from_address, h2.packet_id, h2.message_id,
                                  h2.message_length) != (f.to, f.frm, f.pid, f.typ,
                                                         len(f.data)):
                v("header-differs-after-roundtrip", got=repr(h2))
            if sent_hdr is not None and h2 != sent_hdr:
                v("header-differs-after-roundtrip", got=repr(h2), sent=repr(sent_hdr))
            obs["roundtrips"] += 1
            obs[f"classes_at{gen}"] = obs.get(f"classes_at{gen}", 0)
            fps.append(H.fingerprint((name, raw[:4 if gen == 4 else 16], raw[5 if gen == 4 else 17:])))
        await tx.close()
        await rx.close()

    _, log, st = H.run(main, debug_logging=debug_log)
    if st != "ok":
        viol.append({"mechanism": "roundtrip-world-hang", "detail": {"gen": gen}})
    for sv in H.SIZE.violations[size0:]:
        viol.append({"mechanism": "size-differs-from-bytes-produced", "detail": sv})
    obs["size_checks"] = H.SIZE.checked - checked0
    unh = [e for e in log.events if e[2] in ("LOOP.unhandled",)]
    if unh:
        viol.append({"mechanism": "unhandled-exception-during-roundtrip",
                     "detail": H.jsonable(unh[:2])})
    return viol, obs, fps


def run_case(case):
    gen = case["gen"]
    k = case["k"]
    if k == "edge":
        items = M.edge_messages(gen)
        viol, obs, fps = _run_msgs(gen, items, False, False, random.Random(0))
        obs["edge_messages"] = len(items)
        return {"violations": H.cap(viol), "evals": len(items), "decided": obs["roundtrips"],
                "distinct": len(set(fps)), "obs": obs,
                "sample": {"gen": gen, "edge": [n for n, _ in items][:6]}}
    rnd = random.Random(case["seed"])
    if k == "canon":
        items = []
        import dataclasses
        for r in range(case["rounds"]):
            first = M.messages(gen, rnd)
            if case["seed"] % 2 or r == 0:
                items += first
                continue
            # every message is followed at once by the same object, changed in place to the
            # content of another random message of its class
            second = M.messages(gen, rnd)
            for (na, a), (nb, b) in zip(first, second):
                items.append((na, a))
                if (na == nb and type(a) is type(b) and dataclasses.is_dataclass(a)
                        and not getattr(type(a), "__dataclass_params__").frozen):
                    items.append((na, ("reuse", a, b)))
        viol, obs, fps = _run_msgs(gen, items, case["custom_header"], case["debug_log"], rnd)
        obs[f"classes_at{gen}"] = len({n for n, _ in items})
        return {"violations": H.cap(viol), "evals": len(items), "decided": obs["roundtrips"],
                "distinct": len(set(fps)), "obs": obs,
                "sample": {"gen": gen, "class": items[3][0], "message": repr(items[3][1])[:300]}}
    # decoder image: deliver random valid console frames, re-send what was decoded
    viol = []
    obs = {"image_roundtrips": 0, "roundtrips": 0}
    decoded = []

    async def main(loop, net, log):
        rx = SockWorld(gen, loop, net, log, host="rx")
        await rx.open()
        for i in range(case["n"]):
            kind, raw = F.random_status_frame(gen, rnd)
            c = net.current()
            if c is None:
                await quiesce(loop)
                c = net.current()
                if c is None:
                    break
            n0 = len(rx.msgs)
            c.transport.peer_data(raw)
            await quiesce(loop)
            if len(rx.msgs) == n0 + 1 and c.open:
                decoded.append((kind, rx.msgs[-1][2]))
        await rx.close()

    H.run(main)
    if decoded:
        v2, o2, fps = _run_msgs(gen, [(f"image:{k_}", m) for k_, m in decoded], False, False, rnd)
        viol += v2
        obs["image_roundtrips"] = o2["roundtrips"]
        obs["roundtrips"] = o2["roundtrips"]
        obs["size_checks"] = o2.get("size_checks", 0)
    else:
        fps = []
    return {"violations": H.cap(viol), "evals": case["n"], "decided": obs["image_roundtrips"],
            "distinct": len(set(fps)), "obs": obs,
            "sample": {"gen": gen, "image_of": decoded[0][0] if decoded else None,
                       "message": repr(decoded[0][1])[:300] if decoded else None}}
