"""C19 — the unified API behaves the same over AirTouch 4 and AirTouch 5."""

from __future__ import annotations

import copy
import random

from .. import apiworld as AW
from .. import cmds as K
from .. import console as C
from .. import harness as H
from .. import refproto as R
from ..sockworld import quiesce

ID = "C19"
LEVEL = "exploration"
EXHAUSTIVE = {"quick": False, "thorough": False}
RULE = ("An abstract installation (1..4 ACs, contiguous zone partition, names <= 8 ASCII bytes, "
        "ability bitmaps without intelligent auto, one [min,max] for both modes, AT4 zones "
        "advertising turbo) with an abstract script of 1..40 steps {AC / zone / timer / version "
        "/ error-text status updates with integer temperatures and common enums; public "
        "commands} is compiled to an AT4 console run and an AT5 console run of the real "
        "clients. After every step: every attribute both generations support is equal, each "
        "request is accepted by both or raises ValueError in both, and the reference readings "
        "of the two frames agree after mapping group<->zone and raw set-points to degC. "
        "Whitelisted differences: set-point resolution, away/sleep, intelligent auto, bypass, "
        "per-mode limits, model name. Non-trivial = a step was executed on both clients and "
        "compared; distinct = distinct (installation, step) pairs.")
ASSUMPTIONS = ["equivalence of the two consoles is by construction of the two reference-built "
               "installations/frames from one abstract description",
               "AT4 zone set-point/damper calls also select the matching control method "
               "(documented intent of the library): treated as equal to 'keep'"]
REQUIRED_OBS = ["steps_compared", "commands_compared", "status_steps", "refusals_agree"]
BUDGET = {"quick": 100, "thorough": 1500}

MODE_CODES = [0, 1, 2, 3, 4, 8, 9]


def abstract_installation(rnd):
    n = rnd.choice([1, 1, 2, 3, 4])
    parts = [rnd.randint(0, 4) for _ in range(n)]
    if sum(parts) == 0:
        parts[0] = 1
    names = [rnd.choice(["Living", "Bed 1", "Kitchen", "Z", "Study", "Hall", "Den", "Up"])
             for _ in range(sum(parts))]
    acs = []
    for i in range(n):
        acs.append({"modes": rnd.getrandbits(5) | 1, "fans": rnd.getrandbits(7) | 1,
                    "min": rnd.randint(15, 18), "max": rnd.randint(28, 31),
                    "name": rnd.choice(["Daikin", "Fujitsu", "AC", "Unit %d" % i])})
    return {"parts": parts, "names": names, "acs": acs,
            "sensors": [rnd.random() < 0.7 for _ in names]}


def compile_installation(gen, ai):
    inst = C.default_installation(gen, len(ai["acs"]), tuple(ai["parts"]), new_format=True,
                                  names=ai["names"])
    fan_keys = ["auto", "quiet", "low", "medium", "high", "powerful", "turbo"]
    inst["version"] = (False, ["1.2.3", "1.2.2"])
    inverted = (sum(ai["parts"]) * 3 + len(ai["names"])) % 6 == 2
    for j, (a, d) in enumerate(zip(inst["acs"], ai["acs"])):
        if inverted and j == 0:
            # a unit whose ability record gives a minimum above its maximum (both formats can
            # say so): whatever a set-point request then means, it means the same on both
            d = dict(d, min=d["max"], max=d["min"])
        ab = a["ability"]
        ab["name"] = d["name"]
        ab["modes"] = {k.lower(): bool(d["modes"] >> j & 1) for j, k in enumerate(K.MODES)}
        ab["fans"] = {k: bool(d["fans"] >> j & 1) for j, k in enumerate(fan_keys)}
        if gen == 4:
            ab["min_sp"], ab["max_sp"] = d["min"], d["max"]
            if (sum(ai["parts"]) * 7 + len(ai["acs"])) % 2 == 0:
                # the console sends the group bitmap; its legacy start/count bytes are
                # leftovers that happen to name existing groups (also for a zone-less AC)
                ab["start"], ab["count"] = 0, min(sum(ai["parts"]), 3)
        else:
            ab["fans"]["intelligent_auto"] = False
            ab["min_cool"] = ab["min_heat"] = d["min"]
            ab["max_cool"] = ab["max_heat"] = d["max"]
    for z, s in zip(inst["zones"], ai["sensors"]):
        z["status"]["sensor"] = s
        if gen == 4:
            z["status"]["turbo_support"] = True
        elif not s:
            # an AT5 console reports an invalid set-point/temperature for a sensorless zone
            z["status"]["sp_raw"] = 0xFF
            z["status"]["temp_raw11"] = 0x7FF
    return inst


def abstract_ac(rnd, ac):
    return {"ac": ac, "on": rnd.random() < 0.5, "mode": rnd.choice(MODE_CODES),
            "fan": rnd.randint(0, 6), "sp": rnd.randint(16, 30), "temp": rnd.randint(0, 2000),
            "spill": rnd.random() < 0.3, "timer": rnd.random() < 0.3,
            "error": rnd.choice([0, 0, 0, 9])}


def abstract_zone(rnd, z, sensor):
    return {"zone": z, "power": rnd.choice(["off", "on", "turbo"]),
            "method": rnd.choice(["temperature", "damper"]), "damper": rnd.randint(0, 100),
            "sp": rnd.randint(16, 30), "sensor": sensor,
            "temp": rnd.choice([rnd.randint(0, 2000), None]) if sensor else None,
            "spill": rnd.random() < 0.3, "low": rnd.random() < 0.2 if sensor else False}


def ac_record(gen, a):
    if gen == 4:
        return {"ac": a["ac"], "power": "on" if a["on"] else "off", "mode_code": a["mode"],
                "fan_code": a["fan"], "spill": a["spill"], "timer": a["timer"],
                "set_point": a["sp"], "temp_raw11": a["temp"], "error": a["error"]}
    return {"ac": a["ac"], "power_code": 1 if a["on"] else 0, "mode_code": a["mode"],
            "fan_code": a["fan"], "sp_raw": a["sp"] * 10 - 100, "turbo": False, "bypass": False,
            "spill": a["spill"], "timer": a["timer"], "temp_raw11": a["temp"],
            "error": a["error"]}


def zone_record(gen, z):
    if gen == 4:
        return {"group": z["zone"], "power": z["power"], "control_method": z["method"],
                "damper": z["damper"], "battery_low": z["low"], "turbo_support": True,
                "set_point_raw": z["sp"], "sensor": z["sensor"],
                "temp_raw11": z["temp"], "spill": z["spill"]}
    return {"zone": z["zone"], "power": z["power"], "control_method": z["method"],
            "damper": z["damper"], "sp_raw": (z["sp"] * 10 - 100) if z["sensor"] else 0xFF,
            "sensor": z["sensor"],
            "temp_raw11": 0x7FF if z["temp"] is None else z["temp"], "spill": z["spill"],
            "battery_low": z["low"]}


def gen_steps(rnd, ai, n):
    steps = []
    nacs = len(ai["acs"])
    nz = len(ai["names"])
    starts = [sum(ai["parts"][:i]) for i in range(nacs)]
    for _ in range(n):
        c = rnd.random()
        if c < 0.2:
            ids = rnd.sample(range(nacs), rnd.randint(1, nacs))
            steps.append(["ac_status", [abstract_ac(rnd, a) for a in ids]])
            if rnd.random() < 0.15:
                steps[-1].append({"to": rnd.choice([0xB1, 0xB2, 0x00])})   # to another client
        elif c < 0.4 and nz:
            ids = rnd.sample(range(nz), rnd.randint(1, nz))
            steps.append(["zone_status", [abstract_zone(rnd, z, ai["sensors"][z]) for z in ids]])
            if rnd.random() < 0.15:
                steps[-1].append({"to": rnd.choice([0xB1, 0xB2, 0x00])})
        elif c < 0.47:
            steps.append(["timers", [[rnd.random() < 0.5, rnd.randint(0, 23), rnd.randint(0, 59),
                                      rnd.random() < 0.5, rnd.randint(0, 23), rnd.randint(0, 59)]
                                     for _ in range(nacs)]])
        elif c < 0.52:
            steps.append(["version", rnd.random() < 0.5, rnd.choice([["1.2.3"], ["2.0", "1.9"]])])
        elif c < 0.56:
            steps.append(["error_text", rnd.randrange(nacs), rnd.choice(["E1", "ER: FFFE"])])
        elif c < 0.58:
            steps.append(["init_again"])     # init() once more on the initialised object
        else:
            ai_ = rnd.randrange(nacs)
            d = rnd.random()
            if d < 0.15:
                call = ("ac", ai_, "set_power", (rnd.choice(K.POWERS4),))
            elif d < 0.3:
                call = ("ac", ai_, "set_mode", (rnd.choice(K.MODES), rnd.random() < 0.3))
            elif d < 0.45:
                call = ("ac", ai_, "set_fan_speed", (rnd.choice(K.FANS4),))
            elif d < 0.6:
                call = ("ac", ai_, "set_target_temperature", (float(rnd.randint(10, 36)),))
            elif d < 0.66:
                call = ("ac", ai_, "set_quick_timer_duration",
                        (rnd.choice(["ON_TIMER", "OFF_TIMER"]), rnd.randint(0, 172800)))
            elif d < 0.72:
                call = ("ac", ai_, "set_quick_timer_time",
                        (rnd.choice(["ON_TIMER", "OFF_TIMER"]), rnd.randint(0, 23),
                         rnd.randint(0, 59)))
            elif d < 0.76:
                call = ("ac", ai_, "clear_quick_timer", (rnd.choice(["ON_TIMER", "OFF_TIMER"]),))
            elif ai["parts"][ai_]:
                zid = starts[ai_] + rnd.randrange(ai["parts"][ai_])
                e = rnd.random()
                if e < 0.35:
                    call = ("zone", (ai_, zid), "set_power", (rnd.choice(["OFF", "ON", "TURBO"]),))
                elif e < 0.7:
                    call = ("zone", (ai_, zid), "set_target_temperature",
                            (float(rnd.randint(16, 28)),))
                else:
                    call = ("zone", (ai_, zid), "set_damper_percentage",
                            (rnd.choice([-1, 0, 35, 100, 101]),))
            else:
                call = ("at", 0, "check_for_updates", ())
            steps.append(["call", call])
    return steps


def step_frame(gen, con, step):
    k = step[0]
    if k == "ac_status":
        recs = [ac_record(gen, a) for a in step[1]]
        for r in recs:
            ac = con._ac(r["ac"])
            ac["status"] = r
            if r["error"]:
                con.inst["errors"][r["ac"]] = "E-common"
            else:
                con.inst["errors"].pop(r["ac"], None)
        to = step[2]["to"] if len(step) > 2 else R.ADDR_CLIENT
        if gen == 4:
            return con.f_std(0x2D, b"".join(R.b4_ac_status_record(r) for r in recs), to=to)
        st = con.knobs.stride_ac
        return con.f_std(0xC0, R.c0(0x23, st, [R.b5_ac_status_record(r, st) for r in recs]),
                         to=to)
    if k == "zone_status":
        recs = [zone_record(gen, z) for z in step[1]]
        to = step[2]["to"] if len(step) > 2 else R.ADDR_CLIENT
        if gen == 4:
            return con.f_std(0x2B, b"".join(R.b4_group_status_record(r) for r in recs), to=to)
        st = con.knobs.stride_zone
        return con.f_std(0xC0, R.c0(0x21, st, [R.b5_zone_status_record(r, st) for r in recs]),
                         to=to)
    if k == "timers":
        tm = {}
        for ac, t in enumerate(step[1]):
            tm[ac] = {"on": {"disabled": not t[0], "hour": t[1], "minute": t[2]},
                      "off": {"disabled": not t[3], "hour": t[4], "minute": t[5]}}
        con.inst["timers"] = tm
        return con.frame_timer_status()
    if k == "version":
        con.inst["version"] = (step[1], step[2])
        return con.frame_version()
    if k == "error_text":
        return con.f_ext(0xFF10, R.error_body(step[1], step[2]))
    return None


COMMON_AC = ["ac_id", "name", "supported_modes", "power_state", "selected_mode", "active_mode",
             "selected_fan_speed", "active_fan_speed", "current_temperature",
             "target_temperature", "min_target_temperature", "max_target_temperature",
             "spill_state", "on_timer", "off_timer", "error_info", "zones"]
COMMON_ZONE = ["zone_id", "name", "supported_power_states", "power_state", "control_method",
               "has_temp_sensor", "sensor_battery_status", "current_temperature",
               "target_temperature", "current_damper_percentage", "spill_active"]


def common_view(snap):
    v = {"initialised": snap["initialised"], "update_available": snap["update_available"],
         "console_versions": snap["console_versions"], "acs": {}, "zones": {},
         # the sequence itself: which unit is air_conditioners[0]
         "ac_order": list(snap["acs"])}
    for a, s in snap["acs"].items():
        d = {k: s[k] for k in COMMON_AC}
        d["supported_fan_speeds"] = [f for f in s["supported_fan_speeds"]
                                     if f != "INTELLIGENT_AUTO"]
        d["zones"] = sorted(d["zones"])
        for k in ("target_temperature", "min_target_temperature", "max_target_temperature",
                  "current_temperature"):
            if isinstance(d[k], (int, float)):
                d[k] = round(float(d[k]), 6)
        v["acs"][a] = d
    for z, s in snap["zones"].items():
        d = {k: s[k] for k in COMMON_ZONE}
        if isinstance(d["target_temperature"], (int, float)):
            d["target_temperature"] = round(float(d["target_temperature"]), 6)
        v["zones"][z] = d
    return v


def norm_cmd(gen, cmd):
    """Generation-independent meaning of a command frame."""
    k = cmd["kind"]
    if k == "ac_control":
        r = cmd if gen == 4 else (cmd["records"][0] if len(cmd["records"]) == 1 else None)
        if r is None:
            return ("ac_control", "multi")
        val = None
        if r["setpoint"] == "set":
            val = float(r["setpoint_value"]) if gen == 4 else (r["setpoint_value"] + 100) / 10
        return ("ac_control", r["ac"], r["power"], r["mode"], r["fan"], r["setpoint"], val)
    if k == "zone_control":
        r = cmd if gen == 4 else (cmd["records"][0] if len(cmd["records"]) == 1 else None)
        if r is None:
            return ("zone_control", "multi")
        val = None
        ct = r["control_type"]
        if r["setting"] == "set_setpoint":
            val = float(r["value"]) if gen == 4 else (r["value"] + 100) / 10
            ct = R.KEEP if ct in (R.KEEP, "temperature") else ct
        elif r["setting"] == "set_damper":
            val = r["value"]
            ct = R.KEEP if ct in (R.KEEP, "damper") else ct
        return ("zone_control", r["zone"], r["power"], r["setting"], val, ct)
    if k == "quick_timer":
        return ("quick_timer", cmd["ac"], cmd["timer"], cmd["hours"], cmd["minutes"])
    if k == "timer_control":
        if gen == 4:
            # only the addressed AC is meaningful; the other slots are undocumented
            return ("timer_control", "at4", {a: (t["on"], t["off"]) for a, t in
                                             cmd["timers"].items()})
        return ("timer_control", "at5", {r["ac"]: (r["on"], r["off"]) for r in cmd["records"]})
    return (k,)


def cases(tier, seed):
    rnd = random.Random(f"C19/{tier}/{seed}")
    n = 150 if tier == "quick" else 40000
    for _ in range(n):
        yield {"seed": rnd.randrange(1 << 30), "n": rnd.randint(1, 40)}
    for perm, parts in (([1, 0], [1, 2]), ([2, 0, 1], [1, 1, 2]), ([3, 2, 1, 0], [1, 0, 2, 1]),
                        ([0, 2, 1], [2, 1, 1])):
        yield {"k": "order", "perm": perm, "parts": parts, "seed": 0, "n": 0}


def run_one(gen, ai, steps, strides=(8, 10, 9), hs_push=None):
    """Run the abstract script on one generation; returns per-step results.
    strides: AT5 record lengths (zone status, AC status, timer status) of this console."""
    inst = compile_installation(gen, ai)
    results = []
    status = {}

    async def main(loop, net, log):
        pushed = []

        def extra(step, con):
            # the console reports a changed AC status of its own accord while the handshake
            # is still under way (once, in front of the answer of the given step)
            if hs_push and not pushed and step == hs_push[0]:
                pushed.append(1)
                return [step_frame(gen, con, ["ac_status", hs_push[1]])]
            return []
        w = AW.ApiWorld(gen, loop, net, log, inst,
                        C.Knobs(apply_commands=False, stride_zone=strides[0],
                                stride_ac=strides[1], stride_timer=strides[2],
                                extra=extra if hs_push else None))
        ok = await w.init()
        status["init"] = ok
        if ok is not True:
            return
        await quiesce(loop)
        results.append(("init", common_view(H.snapshot(w.at))))
        for st in steps:
            if st[0] == "call":
                call = tuple(st[1][:1]) + (tuple(st[1][1]) if isinstance(st[1][1], (list, tuple))
                                           else st[1][1],) + tuple(st[1][2:])
                call = (call[0], call[1], call[2], tuple(call[3]))
                n0 = len(w.console.frames)
                try:
                    coro = K.perform(w.at, call)
                except Exception as e:
                    r = e
                else:
                    r = await H.probe(log, call[2], coro)
                await quiesce(loop)
                frames = [(f, cmd) for (t, c, f, cmd) in w.console.frames[n0:]
                          if cmd["kind"] not in ("error_request",)]
                results.append(("call", type(r).__name__ if isinstance(r, Exception) else None,
                                [norm_cmd(gen, cmd) for f, cmd in frames],
                                common_view(H.snapshot(w.at))))
            elif st[0] == "init_again":
                r = await H.probe(log, "init", w.at.init())
                await quiesce(loop)
                results.append(("status", dict(common_view(H.snapshot(w.at)),
                                               init_returned=repr(r))))
            else:
                raw = step_frame(gen, w.console, st)
                c = net.current()
                if c is not None and raw is not None:
                    w.console.send(c, raw)
                await quiesce(loop)
                results.append(("status", common_view(H.snapshot(w.at))))
        await w.at.shutdown()

    _, log, stt = H.run(main)
    status["loop"] = stt
    return results, status


def timer_equal(a, b, ac):
    """AT4 timer control carries four slots, AT5 one record: compare the addressed AC only."""
    return a == b


def run_order(case):
    """Equal installations whose consoles list the air-conditioners in the same - not
    ascending - order in the ability answer: `air_conditioners` is the same sequence on both
    generations, and air_conditioners[i] is the same unit."""
    from .. import apiworld as AW
    viol, obs, seen = [], {}, {}
    perm = case["perm"]
    for gen in (4, 5):
        out = {}

        async def main(loop, net, log, gen=gen, out=out):
            inst = C.default_installation(gen, len(perm), tuple(case["parts"]))
            w = AW.ApiWorld(gen, loop, net, log, inst,
                            C.Knobs(ability_order=lambda acs: [acs[i] for i in perm]))
            out["init"] = await w.init()
            out["order"] = [a.ac_id for a in w.at.air_conditioners]
            out["zones"] = {a.ac_id: sorted(z.zone_id for z in a.zones)
                            for a in w.at.air_conditioners}
            out["listed"] = [inst["acs"][i]["ability"]["ac"] for i in perm]
            await w.at.shutdown()

        _, log, st = H.run(main)
        out["loop"] = st
        seen[gen] = out
    if any(o.get("init") is not True or o["loop"] != "ok" for o in seen.values()):
        viol.append({"mechanism": "equivalent-installations-do-not-both-initialise",
                     "detail": {"at4": repr(seen[4]), "at5": repr(seen[5]), "perm": perm}})
        return {"violations": viol, "evals": 1, "decided": 0, "obs": obs}
    if seen[4]["order"] != seen[5]["order"] or seen[4]["zones"] != seen[5]["zones"]:
        viol.append({"mechanism": "common-attribute-differs-between-generations:"
                     "air_conditioners_order",
                     "detail": {"listed_by_the_console": seen[4]["listed"],
                                "at4": seen[4]["order"], "at5": seen[5]["order"]}})
    else:
        obs["ability_records_listed_out_of_order"] = 1
    return {"violations": viol, "evals": 1, "decided": 1, "distinct": 1, "obs": obs,
            "sample": {"perm": perm}}


def run_case(case):
    if case.get("k") == "order":
        return run_order(case)
    rnd = random.Random(case["seed"])
    ai = abstract_installation(rnd)
    steps = gen_steps(rnd, ai, case["n"])
    viol, obs = [], {}
    hs_push = None
    if rnd.random() < 0.3:
        nacs = len(ai["acs"])
        hs_push = (rnd.choice(["timer_status_request", "zone_status_request",
                               "ac_status_request", "ability_request"]),
                   [abstract_ac(rnd, a) for a in rnd.sample(range(nacs), rnd.randint(1, nacs))])
        obs["unsolicited_status_during_the_handshake"] = 1
    r4, s4 = run_one(4, ai, steps, hs_push=hs_push)
    # (an AT5 console of a later firmware announces longer records)
    strides = (rnd.choice([8, 8, 10]), rnd.choice([10, 10, 8, 12]), rnd.choice([9, 9, 11, 12]))
    r5, s5 = run_one(5, ai, steps, strides, hs_push=hs_push)
    if strides != (8, 10, 9):
        obs["at5_records_longer_or_shorter_than_usual"] = 1
    if s4.get("init") is not True or s5.get("init") is not True or s4["loop"] != "ok" \
            or s5["loop"] != "ok":
        viol.append({"mechanism": "equivalent-installations-do-not-both-initialise",
                     "detail": {"at4": repr(s4), "at5": repr(s5), "installation": ai}})
        return {"violations": viol, "evals": 1, "decided": 0, "obs": obs}
    fps = set()
    for i, (a, b) in enumerate(zip(r4, r5)):
        step = steps[i - 1] if i else ["init"]
        va, vb = a[-1], b[-1]
        if va != vb:
            diff = _first_diff(va, vb)
            viol.append({"mechanism": "common-attribute-differs-between-generations:" + diff[0],
                         "detail": {"step_index": i, "step": H.jsonable(step), "path": diff[1],
                                    "at4": diff[2], "at5": diff[3], "installation": ai}})
            break
        obs["steps_compared"] = obs.get("steps_compared", 0) + 1
        fps.add(H.fingerprint((ai, i, step)))
        if a[0] == "call":
            if a[1] != b[1]:
                viol.append({"mechanism": "request-accepted-by-one-generation-only",
                             "detail": {"step": H.jsonable(step), "at4": a[1], "at5": b[1],
                                        "installation": ai}})
                break
            if a[1] is not None:
                obs["refusals_agree"] = obs.get("refusals_agree", 0) + 1
            ca, cb = a[2], b[2]
            same = len(ca) == len(cb)
            if same:
                for x, y in zip(ca, cb):
                    if x[0] == "timer_control" and y[0] == "timer_control":
                        ac = step[1][1] if isinstance(step[1][1], int) else step[1][1][0]
                        if x[2].get(ac) != y[2].get(ac):
                            same = False
                    elif x != y:
                        same = False
            if not same and K.admissible(4, compile_installation(4, ai), _call(step)):
                viol.append({"mechanism": "request-means-different-things-on-the-two-wires:"
                             + step[1][2],
                             "detail": {"step": H.jsonable(step), "at4": H.jsonable(ca),
                                        "at5": H.jsonable(cb)}})
                break
            obs["commands_compared"] = obs.get("commands_compared", 0) + 1
        elif a[0] == "status":
            obs["status_steps"] = obs.get("status_steps", 0) + 1
    return {"violations": H.cap(viol), "evals": len(steps) + 1,
            "decided": obs.get("steps_compared", 0), "fps": fps, "obs": obs,
            "sample": {"installation": ai, "steps": H.jsonable(steps[:3])}}


def _call(step):
    c = step[1]
    return (c[0], tuple(c[1]) if isinstance(c[1], (list, tuple)) else c[1], c[2], tuple(c[3]))


def _first_diff(a, b, path=""):
    if isinstance(a, dict) and isinstance(b, dict):
        for k in sorted(set(a) | set(b), key=repr):
            if a.get(k) != b.get(k):
                return _first_diff(a.get(k), b.get(k), f"{path}.{k}" if path else str(k))
    leaf = path.split(".")[-1] if path else "value"
    return (leaf, path, a, b)
