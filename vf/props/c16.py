"""C16 — pending-message buffer is bounded and overflow is explicit."""

from __future__ import annotations

import random

from .. import harness as H
from .. import sockscript as S

ID = "C16"
LEVEL = "exploration"
EXHAUSTIVE = {"quick": False, "thorough": False}
RULE = ("Random and directed sequences of 0..25 sends with lifetimes {0.5, 1, 30, 120 s} and "
        "clock advances while the link is down (all connects refused), then a connection; "
        "repeated outages; sends on a closed socket; 9-10 held messages, then a connection "
        "whose 1st..4th write fails while further sends arrive from a disconnected-"
        "notification subscriber / other tasks (judged by the black-box bound: never more "
        "than ten accepted messages flushed at a connection instant). Oracle = 20-line sequential queue model "
        "(purge expired, capacity 10, append; flush unexpired in order on connect) compared "
        "with the exception of every send and the serials seen at the console. Non-trivial = "
        "the run reached a connection after at least one send while down; distinct = distinct "
        "op lists.")
ASSUMPTIONS = ["no write faults in the model-compared runs; connection instants are read from the simulated network log",
               "a message whose expiry equals the connection instant is expired (code: now < "
               "expiry)"]
REQUIRED_OBS = ["expiry_during_connected_notification", "full_buffer_flushed_after_write_fault", "overflow_raised_during_fault_handling",
                "overflow_raised", "expired_purged_made_room", "flushes_compared",
                "not_open_raised", "held_after_overflow_sent",
                "overflow_through_every_public_sender"]
BUDGET = {"quick": 100, "thorough": 1500}

CAP = 10
POLS = ["short", "conn", "idem", "long", "zero", "neg", "hour", "forever"]


def gen_script(rnd):
    ops = [["net_default", "refuse", 0.0]]
    for outage in range(rnd.randint(1, 3)):
        for _ in range(rnd.randint(0, 25)):
            r = rnd.random()
            if r < 0.7:
                ops.append(["send", rnd.choice(S.KINDS), rnd.choice(POLS),
                            rnd.choice(["inline", "inline", "hdr", "hdr_same"])])
            else:
                ops.append(["adv", rnd.choice([0.1, 0.5, 0.49, 1.0, 1.01, 3, 29, 31, 60, 121,
                                               400, 3599, 3601])])
        ops.append(["net_default", "accept", 0.0])
        ops.append(["adv", rnd.choice([2.1, 4.0])])
        ops.append(["q"])
        if rnd.random() < 0.5:
            ops.append(["send", rnd.choice(S.KINDS), "idem", "inline"])
        if rnd.random() < 0.6:
            ops.append(["net_default", "refuse", 0.0])
            ops.append(["fin"])
            ops.append(["q"])
    if rnd.random() < 0.3:
        ops.append(["close"])
        ops.append(["send", "zone_ctrl", "idem", "inline"])
        ops.append(["open"])
        ops.append(["adv", 3.0])
    return ops


def directed():
    out = []
    # fill to 10, expire j of them, add j+1
    for j in range(0, 11):
        ops = [["net_default", "refuse", 0.0]]
        ops += [["send", S.KINDS[i % 3], "short" if i < j else "long", "inline"]
                for i in range(10)]
        ops += [["send", "zone_ctrl", "idem", "inline"]]  # 11th: overflow
        ops += [["adv", 0.6]]
        ops += [["send", S.KINDS[i % 3], "idem", "inline"] for i in range(j + 1)]
        ops += [["net_default", "accept", 0.0], ["adv", 2.0], ["q"]]
        out.append(ops)
    # messages with a lifetime of zero (or less): expired when accepted - ten of them hold no
    # room, none of them is ever transmitted
    for pol in ("zero", "neg"):
        out.append([["net_default", "refuse", 0.0]]
                   + [["send", S.KINDS[i % 3], pol, "inline"] for i in range(10)]
                   + [["send", S.KINDS[i % 3], "idem", "inline"] for i in range(10)]
                   + [["send", "zone_ctrl", "long", "inline"],
                      ["net_default", "accept", 0.0], ["adv", 2.5], ["q"],
                      ["send", "ac_ctrl", pol, "inline"], ["q"]])
    # a connection attempt that is still in flight (no answer yet): held messages expire
    # meanwhile, and room is made for new ones as in any other outage
    for lat in (3.0, 8.0):
        for pol, wait in (("short", 0.6), ("conn", 1.1)):
            out.append([["net", "accept", lat]]
                       + [["send", S.KINDS[i % 3], pol, "inline"] for i in range(10)]
                       + [["adv", wait], ["send", "zone_ctrl", "idem", "inline"],
                          ["send", "ac_ctrl", "long", "inline"], ["adv", lat + 1.0], ["q"]])
    # messages that may wait an hour, and an outage of many minutes
    for wait in (400.0, 3599.0, 3601.0):
        out.append([["net_default", "refuse", 0.0]]
                   + [["send", S.KINDS[i % 3], "hour", "inline"] for i in range(10)]
                   + [["adv", wait], ["send", "zone_ctrl", "hour", "inline"],
                      ["net_default", "accept", 0.0], ["adv", 2.5], ["q"]])
    # two held messages that carry the same packet number (a caller numbering its own packets,
    # or the counter after 256 sends): one expires, the other one is not its business
    for first, second in (("long", "short"), ("short", "long"), ("long", "conn")):
        out.append([["net_default", "refuse", 0.0],
                    ["send", "zone_ctrl", first, "hdr_same"],
                    ["send", "zone_ctrl", second, "hdr_same"],
                    ["send", "ac_ctrl", "long", "inline"], ["adv", 1.2],
                    ["send", "quick_timer", "idem", "inline"],
                    ["net_default", "accept", 0.0], ["adv", 2.5], ["q"]])
    # ... the counter itself coming round while the first message still waits
    out.append([["net_default", "refuse", 0.0], ["send", "zone_ctrl", "hour", "inline"]]
               + [["send", S.KINDS[i % 3], "zero", "inline"] for i in range(255)]
               + [["send", "ac_ctrl", "short", "inline"], ["adv", 0.7],
                  ["send", "quick_timer", "idem", "inline"],
                  ["net_default", "accept", 0.0], ["adv", 2.5], ["q"]])
    # not open
    out.append([["close"], ["send", "zone_ctrl", "idem", "inline"],
                ["send", "ac_ctrl", "long", "hdr"], ["open"], ["adv", 1.0],
                ["send", "quick_timer", "idem", "hdr"]])
    # overflow through either entry point leaves the held ones untouched
    for mode in ("inline", "hdr"):
        out.append([["net_default", "refuse", 0.0]]
                   + [["send", S.KINDS[i % 3], "long", mode] for i in range(13)]
                   + [["net_default", "accept", 0.0], ["adv", 2.5], ["q"]])
    # the application changes a policy object after having sent with it: what a held message
    # may live was fixed when it was accepted
    out.append([["net_default", "refuse", 0.0], ["send", "zone_ctrl", "short", "inline"],
                ["mutate_policy", "short", 30.0], ["send", "ac_ctrl", "long", "inline"],
                ["adv", 0.8], ["net_default", "accept", 0.0], ["adv", 2.5], ["q"]])
    out.append([["net_default", "refuse", 0.0]]
               + [["send", S.KINDS[i % 3], "long", "inline"] for i in range(10)]
               + [["mutate_policy", "long", 0.1], ["adv", 0.5],
                  ["send", "zone_ctrl", "idem", "inline"],
                  ["net_default", "accept", 0.0], ["adv", 2.5], ["q"]])
    out.append([["net_default", "refuse", 0.0], ["send", "zone_ctrl", "long", "inline"],
                ["close"], ["send", "ac_ctrl", "long", "inline"],
                ["net_default", "accept", 0.0], ["open"], ["adv", 3.0]])
    return out


def with_write_faults(rnd=None):
    """Held messages, a connection whose k-th write fails, and further sends that arrive
    while the client deals with the failure (from a disconnected-notification subscriber, from
    other tasks, right after): judged by the bound only (see check_bound)."""
    out = []
    for held in (9, 10):
        for fail_at in (1, 2, 3, 4):
            for extra in ("on_disconnect_send", "task", "inline_after"):
                for pol in ("idem", "long"):
                    ops = [["net_default", "refuse", 0.0]]
                    ops += [["send", S.KINDS[i % 3], pol, "inline"] for i in range(held)]
                    if extra == "on_disconnect_send":
                        ops += [["on_disconnect_send", "zone_ctrl", "idem"],
                                ["on_disconnect_send", "ac_ctrl", "idem"]]
                    ops += [["net", "accept", 0.0, fail_at], ["net_default", "accept", 0.0]]
                    ops += [["adv", 2.0]]
                    if extra == "task":
                        ops += [["send", "zone_ctrl", "idem", "t0"],
                                ["send", "ac_ctrl", "idem", "t1"]]
                    elif extra == "inline_after":
                        ops += [["send", "zone_ctrl", "idem", "inline"],
                                ["send", "ac_ctrl", "idem", "inline"]]
                    ops += [["adv", 4.5], ["q"]]
                    out.append(ops)
    # a lifetime that ends while a connection subscriber is still handling connected=True:
    # the message expired before anything was flushed, so it is never transmitted
    for pol, L in (("short", 0.5), ("conn", 1.0)):
        for back in (0.3 * L, L - 1e-3):
            for busy in (L, 2 * L + 0.5):
                for held in (1, 5):
                    ops = [["q"], ["slow_conn", busy], ["net", "accept", back], ["fin"], ["q"]]
                    ops += [["send", S.KINDS[i % 3], pol if i % 2 == 0 else "long", "inline"]
                            for i in range(held + 1)]
                    ops += [["adv", back + busy + 3.0], ["q"]]
                    out.append(ops)
    # a held message whose write fails on the first connection and whose lifetime ends before
    # the next connection is there: the retry does not bring it back to life
    for pol, L in (("short", 0.5), ("idem", 30.0), ("long", 120.0)):
        for a, d in ((0.6 * L, 0.5 * L), (L - 0.2, 0.3), (L - 0.2, 1.9), (0.5 * L, 0.5 * L + 1.0)):
            for held in (1, 3):
                ops = [["net", "accept", a, 1], ["net", "accept", d], ["fin"], ["q"]]
                ops += [["send", S.KINDS[i % 3], pol, "inline"] for i in range(held)]
                ops += [["adv", a + d + 3.0], ["q"]]
                out.append(ops)
    # sends that arrive from the connected notification: the client already calls itself
    # connected, but the held messages have not been written yet
    for held in (8, 9, 10):
        for pol in ("idem", "long"):
            ops = [["net_default", "refuse", 0.0]]
            ops += [["send", S.KINDS[i % 3], pol, "inline"] for i in range(held)]
            ops += [["on_connect_send", "zone_ctrl", "idem"], ["on_connect_send", "ac_ctrl", "idem"],
                    ["on_connect_send", "quick_timer", "long"]]
            ops += [["net_default", "accept", 0.0], ["adv", 2.5], ["q"]]
            out.append(ops)
    return out


def cases(tier, seed):
    rnd = random.Random(f"C16/{tier}/{seed}")
    for gen in (4, 5):
        for ops in directed():
            yield {"gen": gen, "ops": ops}
        for ops in with_write_faults():
            yield {"gen": gen, "ops": ops, "k": "wf"}
        yield {"gen": gen, "k": "api", "held": 10, "ops": []}
    for gens in ((4, 5), (5, 5), (4, 4)):
        for held in ((10, 1), (4, 11), (10, 10), (12, 3), (1, 1)):
            yield {"k": "duo", "gens": list(gens), "held": list(held), "ops": []}
    n = 300 if tier == "quick" else 150000
    for i in range(n):
        yield {"gen": rnd.choice((4, 5)), "ops": gen_script(rnd)}


def check_bound(gen, run):
    """Black-box form of "at most ten unexpired messages are ever held for a down link":
    whatever is flushed at the instant a connection opens was held just before; more than ten
    distinct accepted messages flushed there means more than ten were held. (No sequential
    model: these runs contain write faults and retries.)"""
    viol, obs = [], {}
    log = run.log
    if run.status != "ok":
        return [{"mechanism": "socket-scenario-hang", "detail": {"status": run.status}}], obs
    by = S.frames_by_conn(gen, log)
    p2s = {(r["typ"], bytes(r["data"])): r for r in run.sends if r["data"] is not None}
    for seq, t, kind, d in log.events:
        if kind != "NET.open":
            continue
        b = by.get(d["conn"])
        if not b:
            continue
        # held just before the flush = accepted, and submitted before the first byte went out
        # (an accepted message is in the buffer from the moment of the call)
        first_write = min((wr[0] for wr in b["writes"]), default=None)
        flushed = []
        for i in b["frames"]:
            r = p2s.get((i["frame"].typ, bytes(i["frame"].data)))
            if r is not None and r.get("outcome") == "ok" and r.get("call_seq") is not None \
                    and first_write is not None and r["call_seq"] <= first_write \
                    and abs(i["t"] - t) < 1e-9 and r["serial"] not in flushed:
                flushed.append(r["serial"])
        if len(flushed) > CAP:
            viol.append({"mechanism": "more-than-ten-messages-held-for-a-down-link",
                         "detail": {"conn": d["conn"], "flushed": len(flushed),
                                    "serials": flushed[:14]}})
        if len(flushed) == CAP:
            obs["full_buffer_flushed_after_write_fault"] = obs.get(
                "full_buffer_flushed_after_write_fault", 0) + 1
    # expired ones are never transmitted (same float arithmetic as the client)
    for cid, b in by.items():
        for i in b["frames"]:
            r = p2s.get((i["frame"].typ, bytes(i["frame"].data)))
            if r is not None and "call_t" in r and i["t"] >= r["call_t"] + r["policy"][1]:
                viol.append({"mechanism": "expired-message-transmitted",
                             "detail": {"serial": r["serial"], "at": i["t"],
                                        "expiry": r["call_t"] + r["policy"][1]}})
    if any(k == "SUB.conn_slow" for _, _, k, _ in log.events):
        obs["expiry_during_connected_notification"] = 1
    rejected = [r for r in run.sends if r["outcome"] == "QueueOverflowError"]
    if rejected:
        obs["overflow_raised_during_fault_handling"] = len(rejected)
    obs["write_fault_runs"] = 1
    return viol, obs


def check(gen, run):
    viol = []
    obs = {}

    def v(mech, **d):
        viol.append({"mechanism": mech, "detail": d})

    if run.status != "ok":
        v("socket-scenario-hang", status=run.status)
        return viol, obs
    log = run.log
    by = S.frames_by_conn(gen, log)
    payload_to_serial = {(r["typ"], bytes(r["data"])): r["serial"] for r in run.sends
                         if r["data"] is not None}
    # timeline of events that matter to the model, in log order
    timeline = []
    for seq, t, kind, d in log.events:
        if kind in ("NET.open", "NET.close"):
            timeline.append((seq, t, kind, d["conn"]))
        elif kind == "API.call" and d.get("name") == "close":
            timeline.append((seq, t, "sock_close", None))
        elif kind == "API.call" and d.get("name") == "open":
            timeline.append((seq, t, "sock_open", None))
    for r in run.sends:
        if "call_seq" in r:
            timeline.append((r["call_seq"], r["call_t"], "send", r))
    # the socket is open from the start (run_script) until a 'close' op; 'open' op reopens
    opened = True
    sock_open_ops = []
    timeline.sort(key=lambda x: x[0])
    queue = []   # (serial, expiry)
    connected = None
    expect_wire = []  # (conn id, [serials])
    closed_serials = set()
    optional = set()
    # reconstruct open/close of the *socket* from the op list
    # (API.call name=close is logged; a later NET.connect_attempt implies open again)
    for seq, t, kind, x in timeline:
        if kind == "NET.open":
            connected = x
            alive = [(s, e) for s, e in queue if t < e]
            if len(alive) != len(queue):
                obs["expired_not_flushed"] = obs.get("expired_not_flushed", 0) + 1
            expect_wire.append([x, [s for s, e in alive]])
            if queue:
                obs["flushes_compared"] = obs.get("flushes_compared", 0) + 1
            queue = []
        elif kind == "NET.close":
            if connected == x:
                connected = None
        elif kind == "sock_close":
            opened = False
            # what was held when the socket was closed may or may not survive a
            # re-open: not decided by the property
            optional.update(s for s, e in queue)
            queue = []
        elif kind == "sock_open":
            opened = True
        elif kind == "send":
            r = x
            if not opened:
                want = "NotOpenError"
                closed_serials.add(r["serial"])
            elif connected is not None:
                want = "ok"
                if r["policy"][1] > 0:
                    expect_wire[-1][1].append(r["serial"])
                else:
                    # expired the moment it was accepted: never transmitted
                    obs["expired_when_accepted"] = obs.get("expired_when_accepted", 0) + 1
            else:
                before = len(queue)
                queue = [(s, e) for s, e in queue if t < e]
                purged = before - len(queue)
                if len(queue) >= CAP:
                    want = "QueueOverflowError"
                else:
                    want = "ok"
                    if before >= CAP and purged:
                        obs["expired_purged_made_room"] = obs.get(
                            "expired_purged_made_room", 0) + 1
                    queue.append((r["serial"], t + r["policy"][1]))
            got = r["outcome"]
            if want == "QueueOverflowError":
                if got == "QueueOverflowError":
                    obs["overflow_raised"] = obs.get("overflow_raised", 0) + 1
                    if any(True for _ in queue):
                        obs["_overflow_pending"] = 1
                else:
                    v("eleventh-message-accepted", serial=r["serial"], outcome=got,
                      held=len(queue))
            elif want == "NotOpenError":
                if got == "NotOpenError":
                    obs["not_open_raised"] = obs.get("not_open_raised", 0) + 1
                else:
                    v("send-on-closed-socket-not-refused", serial=r["serial"], outcome=got)
            else:
                if got == "QueueOverflowError":
                    v("overflow-raised-with-room-left", serial=r["serial"], held=len(queue))
                elif got != "ok":
                    v("send-raised-unexpected-exception", serial=r["serial"], outcome=got)
    # compare wire
    for cid, serials in expect_wire:
        b = by.get(cid, {"frames": [], "rest": b"", "err": None})
        got = [payload_to_serial.get((i["frame"].typ, bytes(i["frame"].data)))
               for i in b["frames"]]
        if b["err"] or b["rest"]:
            v("bytes-on-wire-not-whole-frames", conn=cid)
        got = [s for s in got if s not in optional]
        if got != serials:
            missing = [s for s in serials if s not in got]
            extra = [s for s in got if s not in serials]
            if extra:
                exp = [s for s in extra if s is not None]
                v("expired-or-unheld-message-transmitted" if exp else "unknown-frame-transmitted",
                  conn=cid, extra=extra[:5], expected=serials[:12], got=got[:12])
            elif missing:
                v("held-message-not-transmitted-on-connect", conn=cid, missing=missing[:5],
                  expected=serials[:12], got=got[:12])
            else:
                v("held-messages-transmitted-out-of-order", conn=cid, expected=serials[:12],
                  got=got[:12])
        elif serials and obs.get("_overflow_pending"):
            obs["held_after_overflow_sent"] = obs.get("held_after_overflow_sent", 0) + 1
    allwire = {payload_to_serial.get((i["frame"].typ, bytes(i["frame"].data)))
               for b in by.values() for i in b["frames"]}
    for s in closed_serials:
        if s in allwire:
            v("message-from-closed-period-transmitted", serial=s)
    obs.pop("_overflow_pending", None)
    return viol, obs


def run_api(case):
    """The same bound seen through the public API: ten commands held for a down link, then
    every public method that sends something is tried as the eleventh."""
    import datetime
    import pyairtouch.api as api
    import pyairtouch.comms.socket as psock
    from .. import apiworld as AW
    from .. import console as C
    from ..sockworld import quiesce
    import asyncio
    gen = case["gen"]
    viol, obs, out = [], {}, {}

    async def main(loop, net, log):
        w = AW.ApiWorld(gen, loop, net, log, C.default_installation(gen, 2, (2, 1)),
                        C.Knobs(apply_commands=False))
        if await w.init() is not True:
            out["init"] = False
            return
        await quiesce(loop)
        ac, zone = w.ac, w.zone(0)
        net.default = ("refuse", 0.0)
        w.conn().transport.peer_eof()
        await quiesce(loop)
        fans = ac.supported_fan_speeds
        for i in range(case["held"]):
            await ac.set_fan_speed(fans[i % len(fans)])
        elevenths = {
            "ac.set_power": lambda: ac.set_power(api.AcPowerControl.TURN_ON),
            "ac.set_mode": lambda: ac.set_mode(ac.supported_modes[0]),
            "ac.set_fan_speed": lambda: ac.set_fan_speed(fans[0]),
            "ac.set_target_temperature": lambda: ac.set_target_temperature(23.0),
            "ac.set_quick_timer(duration)": lambda: ac.set_quick_timer(
                api.AcTimerType.OFF_TIMER, datetime.timedelta(minutes=30)),
            "ac.set_quick_timer(time)": lambda: ac.set_quick_timer(
                api.AcTimerType.ON_TIMER, datetime.time(6, 30)),
            "ac.clear_quick_timer": lambda: ac.clear_quick_timer(api.AcTimerType.ON_TIMER),
            "zone.set_power": lambda: zone.set_power(api.ZonePowerState.OFF),
            "zone.set_target_temperature": lambda: zone.set_target_temperature(22.0),
            "zone.set_damper_percentage": lambda: zone.set_damper_percentage(40),
            "airtouch.check_for_updates": lambda: w.at.check_for_updates(),
        }
        res = {}
        for name, fn in elevenths.items():
            try:
                await fn()
                res[name] = "returned"
            except psock.QueueOverflowError:
                res[name] = "QueueOverflowError"
            except Exception as e:  # noqa: BLE001
                res[name] = repr(e)
        out["res"] = res
        n0 = len(w.console.frames)
        net.default = ("accept", 0.0)
        await asyncio.sleep(3.0)
        await quiesce(loop)
        out["flushed"] = [cmd["kind"] for (t, c, f, cmd) in w.console.frames[n0:]
                          if cmd["kind"] not in ("ac_status_request", "zone_status_request")]
        await w.at.shutdown()

    _, log, st = H.run(main)
    if st != "ok" or out.get("init") is False:
        viol.append({"mechanism": "socket-scenario-hang", "detail": {"status": st, "out": repr(out)}})
        return {"violations": viol, "evals": 1, "decided": 0, "obs": obs}
    full = case["held"] >= CAP
    for name, r in out["res"].items():
        if full and r != "QueueOverflowError":
            viol.append({"mechanism": "eleventh-message-accepted:" + name,
                         "detail": {"gen": gen, "held": case["held"], "outcome": r}})
        elif not full and r != "returned" and name == sorted(out["res"])[0]:
            pass
    if full:
        if out["flushed"] != ["ac_control"] * CAP:
            viol.append({"mechanism": "held-message-not-transmitted-on-connect",
                         "detail": {"gen": gen, "flushed": out["flushed"][:14], "api": True}})
        else:
            obs["overflow_through_every_public_sender"] = 1
    return {"violations": viol, "evals": len(out["res"]), "decided": 1 if full else 0,
            "obs": obs, "sample": {"gen": gen, "api_level": True}}


def run_duo(case):
    """Two clients in one process, each with its own console and both links down: what one of
    them holds does not count against the other's buffer and never reaches the other's
    console."""
    import asyncio
    import pyairtouch.comms.socket as psock
    from .. import apiworld as AW
    from .. import console as C
    from ..sockworld import quiesce
    gens, held = case["gens"], case["held"]
    viol, obs, out = [], {}, {}

    async def main(loop, net, log):
        ws = [AW.ApiWorld(g, loop, net, log, C.default_installation(g, 1, (2,)),
                          C.Knobs(apply_commands=False), host=f"10.0.0.{i + 1}")
              for i, g in enumerate(gens)]
        for w in ws:
            if await w.init() is not True:
                out["init"] = False
                return
        await quiesce(loop)
        net.default = ("refuse", 0.0)
        for w in ws:
            w.conn().transport.peer_eof()
        await quiesce(loop)
        res = []
        # interleaved: a command of the first client, one of the second, ...
        todo = [[("fan", k) for k in range(h)] for h in held]
        while any(todo):
            for i, w in enumerate(ws):
                if not todo[i]:
                    continue
                _, k = todo[i].pop(0)
                fans = w.ac.supported_fan_speeds
                try:
                    await w.ac.set_fan_speed(fans[k % len(fans)])
                    res.append((i, k, "returned"))
                except psock.QueueOverflowError:
                    res.append((i, k, "QueueOverflowError"))
        out["res"] = res
        n0 = [len(w.console.frames) for w in ws]
        net.default = ("accept", 0.0)
        await asyncio.sleep(3.0)
        await quiesce(loop)
        out["flushed"] = [[cmd["kind"] for (t, c, f, cmd) in w.console.frames[n0[i]:]
                           if cmd["kind"] not in ("ac_status_request", "zone_status_request")]
                          for i, w in enumerate(ws)]
        for w in ws:
            await w.at.shutdown()

    _, log, st = H.run(main)
    if st != "ok" or out.get("init") is False or "flushed" not in out:
        viol.append({"mechanism": "socket-scenario-hang", "detail": {"status": st, "out": repr(out)}})
        return {"violations": viol, "evals": 1, "decided": 0, "obs": obs}
    for i, k, r in out["res"]:
        want = "returned" if k < CAP else "QueueOverflowError"
        if r != want:
            viol.append({"mechanism": ("overflow-raised-with-room-left" if want == "returned"
                                       else "eleventh-message-accepted") + ":two-clients",
                         "detail": {"gens": gens, "held": held, "client": i, "nth": k + 1,
                                    "outcome": r}})
    for i in (0, 1):
        want = ["ac_control"] * min(held[i], CAP)
        if out["flushed"][i] != want:
            viol.append({"mechanism": "held-message-not-transmitted-on-connect:two-clients",
                         "detail": {"gens": gens, "held": held, "console": i,
                                    "flushed": out["flushed"][i][:14], "want": len(want)}})
    if not viol:
        obs["two_clients_holding_messages_at_once"] = 1
    return {"violations": H.cap(viol), "evals": len(out["res"]), "decided": 1, "obs": obs,
            "sample": {"gens": gens, "held": held}}


def run_case(case):
    if case.get("k") == "api":
        return run_api(case)
    if case.get("k") == "duo":
        return run_duo(case)
    gen = case["gen"]
    run = S.run_script(gen, case["ops"], settle=10.0)
    if case.get("k") == "wf":
        viol, obs = check_bound(gen, run)
    else:
        viol, obs = check(gen, run)
    for x in viol:
        x["log"] = H.log_slice(run.log, 40)
        x["detail"]["ops"] = case["ops"][:30]
    decided = 1 if (obs.get("flushes_compared") or obs.get("not_open_raised")
                    or obs.get("overflow_raised") or obs.get("write_fault_runs")) else 0
    return {"violations": H.cap(viol), "evals": 1, "decided": decided, "obs": obs,
            "sample": {"gen": gen, "ops": case["ops"][:24]}}
