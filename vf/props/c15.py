"""C15 — shutdown is final, leak-free and reversible."""

from __future__ import annotations

import asyncio
import random

import pyairtouch.api as api
import pyairtouch.comms.socket as psock

from .. import apiworld as AW
from .. import console as C
from .. import harness as H
from .. import refmodel as RM
from .. import refproto as R
from .. import sockscript as S
from ..sockworld import SockWorld, quiesce

ID = "C15"
LEVEL = "fault_enumeration"
EXHAUSTIVE = {"quick": False, "thorough": True}
RULE = ("Timelines {cold start with refusal chain, connect latency 3 s, handshake with 0.2 s "
        "answer latency (every step), steady state with heartbeats, reconnect back-off after a "
        "peer close, AT4 group poll, socket-level with 1..10 messages pending, socket-level "
        "back-off} x both generations: a reference run yields the number of loop iterations; "
        "shutdown() (API) or close() (socket) is then started at loop iteration k for every k "
        "(thorough: every k, exhaustive per timeline; quick: every 3rd k + all k in the last "
        "handshake step window) and at every event instant +-1 us. Afterwards: 1000 s idle "
        "virtual time with no connect attempt / write / connected notification, initialised "
        "false, all connections closed, task+timer census empty (1 s after init() returned), "
        "send refused with the not-open error; then optionally init() again on a changed "
        "installation (model rebuilt from scratch). Non-trivial = shutdown returned and the "
        "post-conditions were evaluated; distinct = distinct (timeline, generation, instant).")
ASSUMPTIONS = ["shutdown()/close() is called once, by one task; the caller's own pending init() "
               "(its wait_for timer) is not counted in the census until it has returned",
               "thorough: exhaustive over loop iterations of the listed timelines only"]
REQUIRED_OBS = ["shutdown_from_cancelled_task", "lives_judged", "shutdown_instants_judged", "during_backoff", "during_handshake",
                "during_connect_in_flight", "steady_state", "reinit_ok", "socket_level",
                "overlapping_shutdown_calls", "sends_refused_on_a_closed_socket"]
SOAK = True   # also judged by the whole-run monitors of the soak sessions (vf/soak.py)
# (the instants this check judges are measured against non-eager task start-up: DESIGN 12)
EAGER_OK = False
BUDGET = {"quick": 110, "thorough": 1500}

TIMELINES = ["cold_refuse", "latency3", "handshake", "handshake_bytes", "slow_handshake",
             "cmd_pending", "hb_overflow", "hb_stalled",
             "steady", "backoff",
             "hb_reset", "wfault", "subs", "sock_pending", "sock_backoff", "sock_stalled"]


def installation(gen, variant=0):
    """variant 0: first life of the client (2 ACs, 3 zones); variant 1: what the console
    describes at re-init: FEWER entities with other names (stale entries must be gone)."""
    if variant == 0:
        return C.default_installation(gen, 2, (1, 2), names=["Alpha", "Beta", "Gamma"])
    if variant == 2:
        # an installation without any zone (the handshake ends in another branch)
        return C.default_installation(gen, 1, (0,))
    inst = C.default_installation(gen, 1, (2,), names=["Uno", "Due"])
    inst["acs"][0]["ability"]["name"] = "Other"
    return inst


async def drive(tl, gen, loop, net, log, ctx):
    """Run the timeline; ctx gets 'at' or 'sock', 'init_task'.  Returns when the timeline's
    own horizon is reached (the shutdown hook may fire at any point)."""
    if tl in ("sock_pending", "sock_backoff", "sock_stalled"):
        w = SockWorld(gen, loop, net, log)
        ctx["sockworld"] = w
        ctx["sock"] = w.sock
        if tl == "sock_pending":
            net.script += [("refuse", 0.0), ("refuse", 0.0), ("accept", 0.5)]
        elif tl == "sock_backoff":
            net.script += [("accept", 0.0), ("refuse", 0.0), ("accept", 1.0)]
        await w.sock.open_socket()
        run = S.Run()
        run.base_serial = {k: 0 for k in S.KINDS}
        ctx["run"] = run
        if tl == "sock_pending":
            ops = [["send", S.KINDS[i % 3], "long", "t1"] for i in range(ctx.get("pending", 4))]
            await S.execute(gen, ops, w, run)
            await asyncio.sleep(6.0)
        elif tl == "sock_stalled":
            # senders suspended in drain() on a peer that does not read, then a reset
            await asyncio.sleep(0.1)
            ops = [["stall"]] + [["send", S.KINDS[i % 3], "idem", f"t{i}"] for i in range(3)] + \
                  [["adv", 0.2], ["rst"], ["adv", 0.3], ["send", "zone_ctrl", "idem", "t9"],
                   ["adv", 3.0]]
            await S.execute(gen, ops, w, run)
        else:
            await asyncio.sleep(0.5)
            c = net.current()
            if c:
                c.transport.peer_eof()
            await S.execute(gen, [["send", "zone_ctrl", "long", "t1"]], w, run)
            await asyncio.sleep(6.0)
        return
    knobs = C.Knobs()
    if tl == "cold_refuse":
        net.script += [("refuse", 0.0), ("refuse", 0.3), ("accept", 0.0)]
    elif tl == "latency3":
        net.script += [("accept", 3.0)]
    elif tl == "handshake":
        knobs = C.Knobs(latency=0.2)
    elif tl == "handshake_bytes":
        knobs = C.Knobs(latency=0.1, segmenter=lambda raw: [(-1, raw[i:i + 3])
                                                           for i in range(0, len(raw), 3)])
    elif tl == "slow_handshake":
        # every step answered after a second: init() gives up at 5 s, the handshake completes
        # in the background at 6 s and monitoring starts - shutdown may come at any point
        knobs = C.Knobs(latency=1.0)
    elif tl == "hb_reset":
        knobs = C.Knobs(answer_heartbeat=lambda n, t: 0.0 if n == 1 else None)
    w = AW.ApiWorld(gen, loop, net, log, installation(gen), knobs)
    ctx["world"] = w
    ctx["at"] = w.at
    it = loop.create_task(H.probe(log, "init", w.at.init()))
    ctx["init_task"] = it
    if tl in ("cold_refuse", "latency3", "handshake", "handshake_bytes"):
        await asyncio.sleep(7.0)
    elif tl == "slow_handshake":
        await asyncio.sleep(9.0)
    elif tl == "hb_reset":
        # the heartbeat timeout resets the connection at T0+330 (connect latency 0.4 s)
        await asyncio.sleep(329.0)
        net.script += [("accept", 0.4)]
        await asyncio.sleep(3.0)
    elif tl == "wfault":
        await asyncio.sleep(1.0)
        c = net.current()
        if c:
            c.fail_write_at = c.nwrites + 2
        net.script += [("accept", 0.3)]
        try:
            await w.at.air_conditioners[0].set_power(api.AcPowerControl.TURN_ON)
        except Exception:
            pass
        await asyncio.sleep(3.0)
    elif tl == "subs":
        await asyncio.sleep(0.5)
        try:
            for ac in w.at.air_conditioners:
                ac.subscribe(H.Sub(log, "ac"))
                for z in ac.zones:
                    z.subscribe(H.Sub(log, "zone"))
            for i in range(4):
                st = w.inst["zones"][0]["status"]
                st["damper"] = (st["damper"] + 7) % 100
                c = net.current()
                if c:
                    w.console.send(c, w.console.frame_zone_status())
                    w.console.send(c, w.console.frame_ac_status())
                await asyncio.sleep(0.05)
        except Exception:
            pass
        await asyncio.sleep(1.0)
    elif tl == "steady":
        await asyncio.sleep(620.0)
    elif tl == "cmd_pending":
        # the link is lost, commands are submitted while it is down (held for up to 30 s),
        # it comes back after a few refusals - shutdown may come at any point
        await asyncio.sleep(1.0)
        net.script += [("refuse", 0.0), ("refuse", 0.0), ("refuse", 0.0), ("accept", 0.7)]
        c = net.current()
        if c:
            c.transport.peer_eof()
        await asyncio.sleep(0.5)
        try:
            await w.at.air_conditioners[0].set_power(api.AcPowerControl.TURN_ON)
            await w.at.air_conditioners[0].zones[0].set_damper_percentage(40)
        except Exception:
            pass
        await asyncio.sleep(8.5)
    elif tl == "hb_overflow":
        # the link is down across a heartbeat tick while the buffer is full of commands
        await asyncio.sleep(291.0)
        net.script += [("refuse", 0.0)] * 12 + [("accept", 0.5)]
        c = net.current()
        if c:
            c.transport.peer_eof()
        await asyncio.sleep(4.0)
        for i in range(10):
            try:
                if i % 2:
                    await w.at.air_conditioners[0].set_power(api.AcPowerControl.TURN_ON)
                else:
                    await w.at.air_conditioners[0].zones[0].set_damper_percentage(10 + i)
            except Exception:
                pass
        await asyncio.sleep(35.0)
    elif tl == "hb_stalled":
        # the console stops reading shortly before a heartbeat tick: the heartbeat's own send
        # is held up in drain() when shutdown comes; the console reads again later
        await asyncio.sleep(298.0)
        c = net.current()
        if c:
            c.transport.stall()

            async def cmd():
                try:
                    await w.at.air_conditioners[0].set_power(api.AcPowerControl.TURN_ON)
                except Exception:  # noqa: BLE001
                    pass
            ctx.setdefault("app_tasks", []).append(loop.create_task(cmd()))
        await asyncio.sleep(6.0)
        if c:
            c.transport.unstall()
        await asyncio.sleep(3.0)
    elif tl == "backoff":
        await asyncio.sleep(1.0)
        net.script += [("refuse", 0.0), ("refuse", 0.0), ("accept", 0.7)]
        c = net.current()
        if c:
            c.transport.peer_eof()
        await asyncio.sleep(8.0)


def run_once(gen, tl, trigger, reinit=False, pending=4, double=False, idle=1000.0,
             via_cancel=False):
    """trigger: None (reference run) | ('iter', k) | ('time', t)."""
    out = {"fired": False}

    async def main(loop, net, log):
        ctx = {"pending": pending}
        me = asyncio.current_task()
        mine = {me}
        sd_done = asyncio.Event()

        async def do_shutdown():
            out["fired"] = True
            out["sd_start_t"] = loop.time()
            out["sd_start_it"] = loop.iteration
            log.add("API.call", name="shutdown")
            try:
                if double == "cancelled_first" and ("at" in ctx or "sock" in ctx):
                    # the application cancels its own shutdown() half-way (a time-out around
                    # it) and calls it again: after that second call everything holds
                    fn = ctx["at"].shutdown if "at" in ctx else ctx["sock"].close
                    first = loop.create_task(fn())
                    mine.add(first)
                    for _ in range(1 + out["sd_start_it"] % 12):
                        await asyncio.sleep(0)
                    first.cancel()
                    try:
                        await first
                    except BaseException:  # noqa: BLE001
                        pass
                    await fn()
                    out["shutdown_cancelled_and_repeated"] = True
                elif double == "overlap" and ("at" in ctx or "sock" in ctx):
                    # two callers at (almost) the same time: this one starts a loop turn
                    # after the other - and what holds after shutdown() returns holds for
                    # each of them
                    fn = ctx["at"].shutdown if "at" in ctx else ctx["sock"].close
                    first = loop.create_task(fn())
                    mine.add(first)
                    await asyncio.sleep(0)
                    await fn()
                    out["overlapping_shutdowns"] = True
                    out["first_done_when_second_returned"] = first.done()
                elif "at" in ctx:
                    await ctx["at"].shutdown()
                    if double:
                        await ctx["at"].shutdown()
                elif "sock" in ctx:
                    await ctx["sock"].close()
                    if double:
                        await ctx["sock"].close()
                else:
                    out["nothing_to_shut"] = True
            except Exception as e:
                out["sd_exc"] = repr(e)
            except asyncio.CancelledError as e:
                # (via_cancel: this task's own cancellation was delivered before the finally
                # block started; a CancelledError coming out of shutdown() is not it)
                out["sd_exc"] = repr(e)
            log.add("API.ret", name="shutdown")
            out["sd_ret_t"] = loop.time()
            out["mark"] = log.mark()
            # census at the very instant shutdown() returned (a few loop turns for tasks that
            # were cancelled to finish; no time passes): the caller's own in-flight init()
            # with its timeout, sender tasks and everything of the simulation are not the
            # client's
            for _ in range(10):
                await asyncio.sleep(0)
            hs = set(mine)
            if "init_task" in ctx:
                hs.add(ctx["init_task"])
            for t in getattr(ctx.get("run"), "tasks", None) or []:
                hs.add(t)
            hs |= {t for t in asyncio.all_tasks(loop)
                   if "do_send" in H.describe_tasks([t])[0]}
            out["now_tasks"], out["now_timers"], out["now_unknown"] = H.client_census(loop, hs)
            sd_done.set()

        async def app_task():
            # an application task whose clean-up shuts the client down: it is cancelled at the
            # trigger instant (try/finally, or the body of an expired asyncio.timeout())
            try:
                await asyncio.sleep(1e9)
            finally:
                await do_shutdown()

        app = None
        if via_cancel and trigger is not None:
            app = loop.create_task(app_task())
            mine.add(app)

        def fire():
            out["fired"] = True
            if app is not None:
                app.cancel()
                out["via_cancel"] = True
            else:
                mine.add(loop.create_task(do_shutdown()))

        if trigger is not None:
            if trigger[0] == "iter":
                loop.hooks[trigger[1]] = fire
            else:
                loop.call_at(trigger[1], fire)
        drv = loop.create_task(drive(tl, gen, loop, net, log, ctx))
        mine.add(drv)
        await drv
        out["iterations"] = loop.iteration
        out["times"] = sorted({t for _, t, _, _ in log.events})
        if trigger is None:
            # reference run: clean up and leave (what a shutdown at the end of the timeline
            # does is judged by the triggered runs, not here)
            try:
                if "at" in ctx:
                    await ctx["at"].shutdown()
                elif "sock" in ctx:
                    await ctx["sock"].close()
            except Exception as e:  # noqa: BLE001
                out["ref_shutdown_exc"] = repr(e)
            return
        if not out["fired"]:
            return
        try:
            await asyncio.wait_for(sd_done.wait(), timeout=60.0)
        except asyncio.TimeoutError:
            out["sd_hang"] = True
            return
        if "init_task" in ctx:
            mine.add(ctx["init_task"])
            r = await ctx["init_task"]
            out["init_ret"] = r if not isinstance(r, Exception) else repr(r)
        for t in ctx.get("run").tasks if ctx.get("run") else []:
            mine.add(t)
        await asyncio.sleep(1.0)
        await quiesce(loop)
        H.collect()
        tasks, timers = H.census(loop, mine)
        # sender tasks of the socket-level timelines belong to the harness
        tasks = [t for t in tasks if "do_send" not in H.describe_tasks([t])[0]]
        out["tasks"] = H.describe_tasks(tasks)
        out["timers"] = H.describe_timers(timers)
        await asyncio.sleep(idle)
        await quiesce(loop)
        out["after"] = [(k, H.jsonable(d)) for _, _, k, d in log.since(out["mark"])
                        if k in ("NET.connect_attempt", "NET.write", "NET.open")
                        or (k == "SUB.conn" and d["connected"])
                        or (k == "SUB.call") or k == "LOOP.unhandled"]
        out["open_conns"] = [c.id for c in net.open_conns()]
        if "at" in ctx:
            at = ctx["at"]
            out["initialised"] = at.initialised
            out["acs_after"] = len(at.air_conditioners)
            r = await H.probe(log, "check_for_updates", at.check_for_updates())
            out["send_after"] = type(r).__name__ if isinstance(r, Exception) else "accepted"
        else:
            w = ctx["sockworld"]
            msg, typ, data = S.make_message(gen, "zone_ctrl", 4242)
            try:
                await w.sock.send(msg, psock.RETRY_IDEMPOTENT)
                out["send_after"] = "accepted"
            except Exception as e:
                out["send_after"] = type(e).__name__
            out["is_connected_flag"] = w.sock.is_connected
        tasks, timers = H.census(loop, mine)
        tasks = [t for t in tasks if "do_send" not in H.describe_tasks([t])[0]]
        out["tasks_late"] = H.describe_tasks(tasks)
        out["timers_late"] = H.describe_timers(timers)
        if reinit and "at" in ctx:
            inst2 = installation(gen, 1)
            ctx["world"].console = C.SimConsole(net, inst2, C.Knobs())
            net.script.clear()
            m2 = log.mark()
            r = await H.probe(log, "init", ctx["at"].init())
            out["reinit_ret"] = r if not isinstance(r, Exception) else repr(r)
            await quiesce(loop)
            out["reinit_requests"] = [k for t, c, k in ctx["world"].console.requests()]
            model = RM.RefModel(gen)
            buf = bytearray()
            for _, _, k, d in log.since(m2):
                if k == "NET.deliver":
                    buf += d["data"]
            for f in R.parse_stream(gen, bytes(buf))[0]:
                if f.crc_ok:
                    model.apply(f.typ, f.data, f.to)
            out["reinit_diff"] = RM.diff(model.expected(), H.snapshot(ctx["at"]))[:4]
            # the second life, idle on a healthy link for more than two heartbeat timeouts:
            # one connection, a heartbeat every 300 s, no reset
            await asyncio.sleep(700.0)
            await quiesce(loop)
            out["reinit_opens"] = sum(1 for _, _, k, d in log.since(m2) if k == "NET.open")
            out["reinit_heartbeats"] = sum(1 for t, c, k in ctx["world"].console.requests()
                                           if k == "version_request")
            out["reinit_zone_requests"] = sum(1 for t, c, k in ctx["world"].console.requests()
                                              if k == "zone_status_request")
            try:
                await ctx["at"].shutdown()
            except Exception as e:  # noqa: BLE001
                out["sd_exc"] = repr(e)
        elif reinit:
            w = ctx["sockworld"]
            net.script.clear()
            await w.sock.open_socket()
            await asyncio.sleep(3.0)
            out["reopen_conns"] = len(net.open_conns())
            await w.sock.close()

    _, log, st = H.run(main)
    out["status"] = st
    out["log"] = log
    return out


_REF = {}


def reference(gen, tl):
    key = (gen, tl)
    if key not in _REF:
        o = run_once(gen, tl, None)
        _REF[key] = (o["iterations"], o["times"])
    return _REF[key]


def cases(tier, seed):
    rnd = random.Random(f"C15/{tier}/{seed}")
    # anchors: D4 (close during back-off / in-flight connect), D5 (last handshake step)
    for gen in (4, 5):
        yield {"gen": gen, "tl": "sock_pending", "trigs": [["time", 1.0], ["time", 4.2]],
               "reinit": False, "anchor": "D4"}
        yield {"gen": gen, "tl": "latency3", "trigs": [["time", 1.5]], "reinit": True,
               "anchor": "D4b"}
    # anchors: D18 (the second of two overlapping close()/shutdown() calls returned at once)
    yield {"gen": 5, "tl": "cold_refuse", "trigs": [["iter", k] for k in range(10, 17)],
           "reinit": False, "double": "overlap", "idle": 1000.0, "anchor": "D18"}
    yield {"gen": 4, "tl": "sock_stalled", "trigs": [["iter", k] for k in range(18, 27)],
           "reinit": False, "double": "overlap", "idle": 1000.0, "anchor": "D18b"}
    # a command whose write failed inside an application task, shutdown at every single loop
    # iteration of that timeline, and a second life half a second later: nothing of the first
    # life's is written in the second
    for gen in (4, 5):
        K, _times = reference(gen, "wfault")
        trigs = [["iter", k] for k in range(1, K + 1)]
        for i in range(0, len(trigs), 12):
            yield {"gen": gen, "tl": "wfault", "trigs": trigs[i:i + 12], "reinit": True,
                   "idle": 0.5, "double": False}
    for gen in (4, 5):
        for state in ("never_opened", "closed", "closed_in_backoff", "closed_twice"):
            yield {"k": "closed_send", "gen": gen, "state": state}
    for gen in (4, 5):
        for i in range(2 if tier == "quick" else 60):
            yield {"k": "cycles", "gen": gen, "cycles": 12 if tier == "quick" else 40,
                   "seed": rnd.randrange(1 << 30)}
    for gen in (4, 5):
        for tl in TIMELINES:
            K, times = reference(gen, tl)
            ks = list(range(1, K + 1))
            if tier == "quick":
                step = 3 if K < 400 else 7
                sel = [k for k in ks if k % step == (seed % step)]
            else:
                sel = ks
            trigs = [["iter", k] for k in sel]
            for t in times:
                if t > 0:
                    trigs.append(["time", t - 1e-6])
                trigs.append(["time", t + 1e-6])
            for i in range(0, len(trigs), 12):
                # (the idle time between shutdown and the re-init: long, or short enough for
                # anything the old life still held to be unexpired)
                yield {"gen": gen, "tl": tl, "trigs": trigs[i:i + 12],
                       "reinit": (i // 12) % 3 != 1, "double": {1: "overlap", 3: True, 2: "cancelled_first"}.get((i // 12) % 4, False),
                       "idle": 1000.0 if (i // 12) % 2 else 0.5,
                       # shutdown awaited from the clean-up of a cancelled application task
                       "via_cancel": (i // 12) % 5 == 2}
        if tier == "thorough":
            for pending in (1, 2, 7, 10):
                K, times = reference(gen, "sock_pending")
                trigs = [["iter", k] for k in range(1, K + 1)]
                for i in range(0, len(trigs), 12):
                    yield {"gen": gen, "tl": "sock_pending", "trigs": trigs[i:i + 12],
                           "reinit": False, "pending": pending}


def judge(gen, tl, trig, o, reinit):
    viol = []
    obs = {}
    info = {"gen": gen, "timeline": tl, "trigger": trig,
            "shutdown_started_at": o.get("sd_start_t"), "iteration": o.get("sd_start_it")}

    def v(mech, **d):
        viol.append({"mechanism": mech, "detail": dict(info, **d),
                     "log": H.log_slice(o["log"], 40)})

    if o["status"] != "ok":
        v("shutdown-scenario-hang", status=o["status"])
        return viol, obs
    if not o["fired"] or o.get("nothing_to_shut"):
        return viol, {"trigger_after_timeline": 1}
    if o.get("sd_hang"):
        v("shutdown-does-not-return")
        return viol, obs
    # shutdown() that ran to completion before init() had even started: the init() is then a
    # "later init()" in the sense of the property and its activity is legitimate
    init_call = next((seq for seq, _, k, d in o["log"].events
                      if k == "API.call" and d.get("name") == "init"), None)
    if init_call is not None and init_call >= o.get("mark", 0) - 1 and "at" != tl:
        sd_ret = next((seq for seq, _, k, d in o["log"].events
                       if k == "API.ret" and d.get("name") == "shutdown"), None)
        if sd_ret is not None and init_call > sd_ret:
            return viol, {"shutdown_before_init_started": 1}
    if "sd_exc" in o:
        v("shutdown-raises", exc=o["sd_exc"])
    if isinstance(o.get("init_ret"), str):
        v("init-raises-when-shut-down", exc=o["init_ret"])
    for k, d in o["after"]:
        if k == "NET.connect_attempt":
            v("connect-attempt-after-shutdown", event=d)
            break
    for k, d in o["after"]:
        if k == "NET.write":
            v("write-after-shutdown", event=d)
            break
    for k, d in o["after"]:
        if k == "SUB.conn":
            v("connected-notification-after-shutdown")
            break
    for k, d in o["after"]:
        if k == "LOOP.unhandled":
            v("unhandled-exception-after-shutdown", event=d)
            break
    if o["open_conns"]:
        v("connection-left-open-after-shutdown", conns=o["open_conns"])
    if o.get("initialised"):
        v("initialised-true-after-shutdown")
    if o.get("acs_after"):
        v("model-not-cleared-by-shutdown", acs=o["acs_after"])
    if o.get("is_connected_flag"):
        v("connected-flag-true-after-close")
    if o["tasks"] or o["tasks_late"]:
        v("task-left-after-shutdown:" + (o["tasks"] or o["tasks_late"])[0],
          tasks=o["tasks"], late=o["tasks_late"])
    if o["timers"] or o["timers_late"]:
        v("timer-left-after-shutdown", timers=o["timers"], late=o["timers_late"])
    if o.get("now_tasks"):
        v("task-still-scheduled-when-shutdown-returns:" + o["now_tasks"][0], tasks=o["now_tasks"])
    if o.get("now_timers"):
        v("timer-still-scheduled-when-shutdown-returns", timers=o["now_timers"])
    if "now_tasks" in o and not o["now_tasks"] and not o["now_timers"]:
        obs["census_at_return_empty"] = 1
        if o.get("overlapping_shutdowns"):
            obs["overlapping_shutdown_calls"] = 1
        if o.get("shutdown_cancelled_and_repeated"):
            obs["shutdown_cancelled_and_repeated"] = 1
    if o.get("now_unknown"):
        obs["unattributed_timers_at_return"] = len(o["now_unknown"])
    if o["send_after"] != "NotOpenError":
        v("send-after-shutdown-not-refused", got=o["send_after"])
    if reinit and "reinit_ret" in o:
        if o["reinit_ret"] is not True:
            v("reinit-after-shutdown-fails", ret=o["reinit_ret"])
        elif o["reinit_diff"]:
            v("reinit-does-not-rebuild-model", diff=o["reinit_diff"])
        elif o["reinit_requests"][:7] != C.STEPS + ["version_request"] or \
                len(o["reinit_requests"]) != 7:
            # the six discovery requests once each, then the first heartbeat
            v("reinit-does-not-behave-like-a-fresh-object", requests=o["reinit_requests"][:16])
        elif gen == 4 and o.get("reinit_zone_requests") != 3:
            # AT4: the handshake's group status request, then - the console pushing nothing -
            # the silence poll 300 s and 600 s later, as in a first life
            v("second-life-does-not-behave-like-a-fresh-object:group-status-poll",
              group_status_requests=o.get("reinit_zone_requests"))
        elif o.get("reinit_opens") != 1 or o.get("reinit_heartbeats") != 4:
            # (handshake's version request + heartbeats at T0, T0+300, T0+600)
            v("second-life-does-not-behave-like-a-fresh-object", connections=o.get("reinit_opens"),
              version_requests=o.get("reinit_heartbeats"))
        else:
            obs["reinit_ok"] = 1
    if reinit and "reopen_conns" in o:
        if o["reopen_conns"] != 1:
            v("reopen-after-close-fails", open=o["reopen_conns"])
        else:
            obs["reinit_ok"] = 1
    obs["shutdown_instants_judged"] = 1
    if o.get("via_cancel"):
        obs["shutdown_from_cancelled_task"] = 1
    log = o["log"]
    t = o["sd_start_t"]
    if tl in ("backoff", "sock_backoff", "cold_refuse", "sock_pending"):
        # was a delayed connect pending at that instant?
        att = [(tt, d) for _, tt, k, d in log.events if k == "NET.connect_attempt"]
        if any(d["outcome"] != "accept" and tt <= t <= tt + 2.0 for tt, d in att):
            obs["during_backoff"] = 1
    if any(d["outcome"] == "accept" and tt <= t <= tt + d["latency"] and d["latency"] > 0
           for _, tt, k, d in log.events if k == "NET.connect_attempt"):
        obs["during_connect_in_flight"] = 1
    if tl in ("handshake", "handshake_bytes") and 0 < t < 1.3:
        obs["during_handshake"] = 1
    if tl == "steady" and t > 5:
        obs["steady_state"] = 1
    if tl.startswith("sock"):
        obs["socket_level"] = 1
    return viol, obs


def run_cycles(case):
    """Many init() / shutdown() cycles on ONE object (idle times of every size in between):
    each life must look like the first - the six requests and the first heartbeat once each,
    one notification per change for a subscriber attached in that life, nothing left behind."""
    gen = case["gen"]
    rnd = random.Random(case["seed"])
    viol, obs = [], {}

    async def main(loop, net, log):
        w = AW.ApiWorld(gen, loop, net, log, installation(gen), C.Knobs())

        def v(mech, **d):
            viol.append({"mechanism": mech, "detail": dict(d, gen=gen, cycle=k),
                         "log": H.log_slice(log, 30)})
        for k in range(case["cycles"]):
            w.console = C.SimConsole(net, installation(gen, k % 3), C.Knobs())
            if k % 3 == 2:
                obs["lives_on_an_installation_without_zones"] = obs.get(
                    "lives_on_an_installation_without_zones", 0) + 1
            net.script.clear()
            m = log.mark()
            r = await H.probe(log, "init", w.at.init())
            await quiesce(loop)
            if r is not True:
                v("reinit-after-shutdown-fails", ret=repr(r))
                return
            reqs = [kk for t, c, kk in w.console.requests()]
            if reqs != C.STEPS + ["version_request"]:
                v("reinit-does-not-behave-like-a-fresh-object", requests=reqs[:16])
                return
            ac = w.at.air_conditioners[0]
            sub = H.Sub(log, f"life{k}")
            ac.subscribe(sub)
            st = w.console.inst["acs"][0]["status"]
            if gen == 4:
                st["set_point"] = 20 if st["set_point"] != 20 else 21
            else:
                st["sp_raw"] = 120 if st["sp_raw"] != 120 else 130
            w.console.send(net.current(), w.console.frame_ac_status())
            await quiesce(loop)
            if len(sub.calls) != 1:
                v("life-does-not-behave-like-the-first:notifications-per-change",
                  calls=len(sub.calls))
                return
            await asyncio.sleep(rnd.choice([0.0, 0.5, 31.0, 299.5, 301.0, 700.0]))
            await w.at.shutdown()
            for _ in range(10):
                await asyncio.sleep(0)
            tasks, timers, unknown = H.client_census(loop, {asyncio.current_task()})
            if tasks or timers:
                v("task-or-timer-left-when-shutdown-returns", tasks=tasks, timers=timers)
                return
            mark = log.mark()
            await asyncio.sleep(rnd.choice([0.0, 0.5, 3.0, 400.0]))
            await quiesce(loop)
            late = [kk for _, _, kk, d in log.since(mark)
                    if kk in ("NET.connect_attempt", "NET.write", "NET.open", "SUB.call")]
            if late or net.open_conns():
                v("activity-or-open-connection-after-shutdown", events=late[:5])
                return
            obs["lives_judged"] = obs.get("lives_judged", 0) + 1

    _, log, st = H.run(main)
    if st != "ok":
        viol.append({"mechanism": "shutdown-scenario-hang", "detail": {"status": st}})
    n = obs.get("lives_judged", 0)
    return {"violations": H.cap(viol), "evals": case["cycles"], "decided": n, "distinct": n,
            "obs": obs, "sample": {"gen": gen, "cycles": case["cycles"]}}


def run_closed_send(case):
    """Socket level: on a socket that was never opened, or has been closed (from the connected
    state, during the back-off, twice), every way of sending raises the not-open error -
    whatever the retry policy - and nothing is written, queued or connected."""
    import pyairtouch.comms.socket as psock
    from .. import sockscript as S
    from ..sockworld import SockWorld, quiesce
    gen, state = case["gen"], case["state"]
    viol, obs = [], {}

    async def main(loop, net, log):
        w = SockWorld(gen, loop, net, log)
        if state != "never_opened":
            if state == "closed_in_backoff":
                net.default = ("refuse", 0.0)
                await w.sock.open_socket()
                await asyncio.sleep(0.7)
            else:
                await w.open()
                await quiesce(loop)
            await w.sock.close()
            if state == "closed_twice":
                await w.sock.close()
            await quiesce(loop)
        net.default = ("accept", 0.0)
        mark = log.mark()
        pols = {"RETRY_CONNECTED": psock.RETRY_CONNECTED,
                "RETRY_IDEMPOTENT": psock.RETRY_IDEMPOTENT,
                "RETRY_NON_IDEMPOTENT": psock.RETRY_NON_IDEMPOTENT}
        for name, (r, life) in S.POLICIES.items():
            pols[name] = psock.RetryPolicy(r, life)
        reg = H.registry(gen)
        for i, (name, pol) in enumerate(sorted(pols.items())):
            for entry in ("send", "send_with_header"):
                msg = S.make_message(gen, S.KINDS[i % 3], 9000 + i)[0]
                try:
                    if entry == "send":
                        await w.sock.send(msg, pol)
                    else:
                        hdr = reg.header_factory.create_from_message(
                            msg, reg.get_encoder(msg.message_id).size(msg))
                        await w.sock.send_with_header(hdr, msg, pol)
                    got = "returned"
                except psock.NotOpenError:
                    got = "NotOpenError"
                except Exception as e:  # noqa: BLE001
                    got = repr(e)
                if got != "NotOpenError":
                    viol.append({"mechanism": "send-after-shutdown-not-refused:socket-level",
                                 "detail": {"gen": gen, "state": state, "policy": name,
                                            "entry": entry, "got": got}})
                else:
                    obs["sends_refused_on_a_closed_socket"] = obs.get(
                        "sends_refused_on_a_closed_socket", 0) + 1
        await asyncio.sleep(40.0)
        await quiesce(loop)
        stray = [(k, H.jsonable(d)) for _, _, k, d in log.since(mark)
                 if k in ("NET.connect_attempt", "NET.write", "NET.open")]
        if stray:
            viol.append({"mechanism": "closed-socket-touches-the-network",
                         "detail": {"gen": gen, "state": state, "events": stray[:4]}})
        if w.sock.is_open or w.sock.is_connected:
            viol.append({"mechanism": "closed-socket-reports-open",
                         "detail": {"gen": gen, "state": state}})

    _, log, st = H.run(main)
    if st != "ok":
        viol.append({"mechanism": "shutdown-scenario-hang", "detail": {"status": st}})
    n = obs.get("sends_refused_on_a_closed_socket", 0)
    return {"violations": H.cap(viol), "evals": max(n, 1), "decided": n, "distinct": n,
            "obs": obs, "sample": {"gen": gen, "state": state}}


def run_case(case):
    if case.get("k") == "cycles":
        return run_cycles(case)
    if case.get("k") == "closed_send":
        return run_closed_send(case)
    gen, tl = case["gen"], case["tl"]
    viol, obs = [], {}
    dec = 0
    for trig in case["trigs"]:
        o = run_once(gen, tl, tuple(trig), case["reinit"], case.get("pending", 4),
                     case.get("double", False), case.get("idle", 1000.0),
                     case.get("via_cancel", False))
        vv, oo = judge(gen, tl, trig, o, case["reinit"])
        viol += vv
        for k, n in oo.items():
            obs[k] = obs.get(k, 0) + n
        dec += oo.get("shutdown_instants_judged", 0)
    return {"violations": H.cap(viol), "evals": len(case["trigs"]), "decided": dec,
            "distinct": dec, "obs": obs,
            "sample": {"gen": gen, "timeline": tl, "triggers": case["trigs"][:4]}}
