"""C11 — invalid requests are refused locally; valid ones are shaped as documented."""

from __future__ import annotations

import random

from .. import cmds as K
from .. import harness as H

ID = "C11"
LEVEL = "exploration"
EXHAUSTIVE = {"quick": False, "thorough": True}
RULE = ("Ability bitmaps 2^5 modes x 2^7 (AT4) / 2^8 (AT5) fan speeds (thorough: all of them, "
        "exhaustive; quick: all-on, all-off, every single bit, 200 random) x every enum "
        "argument of set_mode / set_fan_speed / set_power; zone power states with turbo "
        "supported / unsupported; damper values -5..105; zone set-points with sensor present / "
        "absent; AC set-points -5..45 on a 0.05 grid against the current [min,max] (mode "
        "dependent on AT5); all four reported (on, off) timer states x set/clear x both timer "
        "types. Oracle: a request the unit does not advertise raises ValueError with zero "
        "writes between call and raise; an accepted call writes exactly one frame, AC set-point "
        "= clamp(round) (tie either way), zone set-point rounded not clamped, the other quick "
        "timer byte-identical to the last reported one. Non-trivial = a call was judged "
        "(refused or accepted); distinct = distinct (ability bitmap, call).")
ASSUMPTIONS = ["what the unit advertises is read from the ability record with the reference "
               "codec", "ValueError must be raised by the call itself (before or while awaited)"]
REQUIRED_OBS = ["refused_locally", "accepted_one_frame", "bitmaps_covered", "timer_pairs",
                "clamped_setpoints", "sensorless_zone_refusals", "damper_out_of_range",
                "state_changes_between_calls"]
SOAK = True   # also judged by the whole-run monitors of the soak sessions (vf/soak.py)
BUDGET = {"quick": 100, "thorough": 1500}


def cases(tier, seed):
    rnd = random.Random(f"C11/{tier}/{seed}")
    for gen in (4, 5):
        nf = 7 if gen == 4 else 8
        if tier == "thorough":
            maps = [(m, f) for m in range(32) for f in range(1 << nf)]
        else:
            maps = [(31, (1 << nf) - 1), (0, 0)]
            maps += [(31 ^ (1 << i), (1 << nf) - 1) for i in range(5)]
            maps += [(31, ((1 << nf) - 1) ^ (1 << i)) for i in range(nf)]
            maps += [(1 << i, 0) for i in range(5)] + [(0, 1 << i) for i in range(nf)]
            maps += [(rnd.getrandbits(5), rnd.getrandbits(nf)) for _ in range(200)]
        for i in range(0, len(maps), 8):
            yield {"k": "bitmap", "gen": gen, "maps": maps[i:i + 8],
                   "seed": rnd.randrange(1 << 30)}
        for on_en in (False, True):
            for off_en in (False, True):
                yield {"k": "timers", "gen": gen, "state": [on_en, off_en],
                       "seed": rnd.randrange(1 << 30)}
        for sensors in (False, True):
            for turbo in (False, True):
                yield {"k": "zones", "gen": gen, "sensors": sensors, "turbo": turbo,
                       "seed": rnd.randrange(1 << 30)}
        for block in range(-5, 45, 10):
            yield {"k": "clamp", "gen": gen, "lo": block, "seed": rnd.randrange(1 << 30)}
    n = 60 if tier == "quick" else 15000
    for i in range(n):
        yield {"k": "random" if i % 2 else "churn", "gen": rnd.choice((4, 5)),
               "seed": rnd.randrange(1 << 30)}


def run_case(case):
    gen = case["gen"]
    rnd = random.Random(case["seed"])
    viol, obs = [], {}
    fps = set()
    total = 0

    def run(inst, calls, tag, churn=None):
        nonlocal total
        total += len(calls)

        def on_result(call, exc, frames, writes, timers):
            refuse = K.should_refuse(gen, inst, call)
            info = {"gen": gen, "call": call, "tag": tag}
            if refuse:
                if not isinstance(exc, ValueError):
                    viol.append({"mechanism": f"invalid-request-not-refused:at{gen}.{call[2]}",
                                 "detail": dict(info, exc=repr(exc), frames=len(frames))})
                elif writes or frames:
                    viol.append({"mechanism": f"refused-request-still-transmitted:at{gen}.{call[2]}",
                                 "detail": dict(info, writes=writes)})
                else:
                    obs["refused_locally"] = obs.get("refused_locally", 0) + 1
                    if call[0] == "zone" and call[2] == "set_target_temperature":
                        obs["sensorless_zone_refusals"] = obs.get("sensorless_zone_refusals", 0) + 1
                    if call[2] == "set_damper_percentage":
                        obs["damper_out_of_range"] = obs.get("damper_out_of_range", 0) + 1
                    fps.add(H.fingerprint((tag, call)))
                return
            if not K.admissible(gen, inst, call):
                return
            if exc is not None:
                viol.append({"mechanism": f"valid-request-refused:at{gen}.{call[2]}",
                             "detail": dict(info, exc=repr(exc))})
                return
            if len(frames) != 1:
                viol.append({"mechanism": f"accepted-call-did-not-produce-one-frame:at{gen}.{call[2]}",
                             "detail": dict(info, frames=len(frames))})
                return
            f, cmd = frames[0]
            for mech, d in K.judge_frame(gen, inst, call, f, cmd, timers):
                viol.append({"mechanism": f"command-{mech}:at{gen}.{call[2]}",
                             "detail": dict(d, call=call, frame=f.raw, tag=tag)})
            obs["accepted_one_frame"] = obs.get("accepted_one_frame", 0) + 1
            fps.add(H.fingerprint((tag, call)))
            if call[2] in ("set_quick_timer_time", "clear_quick_timer"):
                obs["timer_pairs"] = obs.get("timer_pairs", 0) + 1
            if call[0] == "ac" and call[2] == "set_target_temperature":
                lo, hi = K.expected_limits(gen, inst, call[1])
                if not (lo <= call[3][0] <= hi):
                    obs["clamped_setpoints"] = obs.get("clamped_setpoints", 0) + 1

        st = K.exercise(gen, inst, calls, on_result=on_result, churn=churn)
        if st.get("churned"):
            obs["state_changes_between_calls"] = obs.get("state_changes_between_calls", 0) + \
                st["churned"]
        if st.get("init") is not True or st["loop"] != "ok":
            viol.append({"mechanism": "command-world-did-not-run",
                         "detail": {"init": repr(st.get("init")), "loop": st["loop"], "tag": tag}})
        if st["unhandled"]:
            viol.append({"mechanism": "unhandled-exception-during-commands",
                         "detail": H.jsonable(st["unhandled"][:2])})

    k = case["k"]
    if k == "bitmap":
        for m, f in case["maps"]:
            inst = K.make_installation(gen, rnd, modes=m, fans=f, ac_ids=[0])
            calls = []
            for mo in K.MODES:
                calls.append(("ac", 0, "set_mode", (mo, rnd.random() < 0.3)))
            for fa in K.FANS5:
                calls.append(("ac", 0, "set_fan_speed", (fa,)))
            for p in K.POWERS5:
                calls.append(("ac", 0, "set_power", (p,)))
            run(inst, calls, f"m{m}f{f}")
            obs["bitmaps_covered"] = obs.get("bitmaps_covered", 0) + 1
    elif k == "timers":
        inst = K.make_installation(gen, rnd, modes=31, fans=255, timers=tuple(case["state"]))
        calls = []
        for ai in range(len(inst["acs"])):
            for ty in ("ON_TIMER", "OFF_TIMER"):
                calls.append(("ac", ai, "clear_quick_timer", (ty,)))
                for _ in range(6):
                    calls.append(("ac", ai, "set_quick_timer_time",
                                  (ty, rnd.randint(0, 23), rnd.randint(0, 59))))
                # asking for exactly what the console last reported is still a request
                rep = inst["timers"][inst["acs"][ai]["ability"]["ac"]]["on" if ty == "ON_TIMER"
                                                                         else "off"]
                calls.append(("ac", ai, "set_quick_timer_time", (ty, rep["hour"], rep["minute"])))
                obs["timer_set_to_reported_value"] = obs.get("timer_set_to_reported_value", 0) + 1
        run(inst, calls, f"timers{case['state']}")
    elif k == "zones":
        inst = K.make_installation(gen, rnd, modes=31, fans=255, sensors=case["sensors"],
                                   turbo=case["turbo"])
        calls = []
        for ai, a in enumerate(inst["acs"]):
            ab = a["ability"]
            for zid in range(ab["start"], ab["start"] + ab["count"]):
                for p in ("OFF", "ON", "TURBO"):
                    calls.append(("zone", (ai, zid), "set_power", (p,)))
                for d in range(-5, 106):
                    calls.append(("zone", (ai, zid), "set_damper_percentage", (d,)))
                for t in (16.0, 20.5, 22.25, 24.0, 25.55, 29.0):
                    calls.append(("zone", (ai, zid), "set_target_temperature", (t,)))
        run(inst, calls, f"zones{case['sensors']}{case['turbo']}")
    elif k == "clamp":
        inst = K.make_installation(gen, rnd, modes=31, fans=255)
        calls = []
        temps = [round((case["lo"] + i * 0.05) * 20) / 20 for i in range(201)]
        for ai in range(len(inst["acs"])):
            for t in temps:
                calls.append(("ac", ai, "set_target_temperature", (t,)))
        run(inst, calls, "clamp")
    elif k == "churn":
        # what the console reports changes between the calls (sensor presence, turbo support,
        # control method, AC mode and with it the AT5 limits): validation follows the LATEST
        inst = K.make_installation(gen, rnd)
        run(inst, K.gen_calls(gen, inst, rnd, 150), "churn", churn=random.Random(case["seed"] + 1))
    else:
        inst = K.make_installation(gen, rnd)
        run(inst, K.gen_calls(gen, inst, rnd, 150), "random")
    dec = obs.get("refused_locally", 0) + obs.get("accepted_one_frame", 0)
    return {"violations": H.cap(viol), "evals": total, "decided": dec, "fps": fps, "obs": obs,
            "sample": {k2: v for k2, v in case.items() if k2 != "maps"} | {"first_map": case.get("maps", [None])[0]}}
