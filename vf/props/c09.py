"""C09 — initialisation completes against any answering console, else fails cleanly."""

from __future__ import annotations

import asyncio
import random

from .. import apiworld as AW
from .. import console as C
from .. import harness as H
from .. import refmodel as RM
from .. import refproto as R
from ..sockworld import quiesce

ID = "C09"
LEVEL = "exploration"
EXHAUSTIVE = {"quick": False, "thorough": False}
RULE = ("Installations (1..4 ACs x 0..16 zones, contiguous partitions, AT4 old/new ability "
        "format incl. random group bitmaps with nonsense start/count, single-AC fallbacks, AT5 "
        "zero zones via request echo, multi-byte names) x every single insertion of an extra "
        "frame {unsolicited truthful AC/zone status, duplicate of an earlier answer, unknown "
        "type, unknown sub-type, truthful frame addressed to another client, foreign-addressed "
        "request echo} at each of the six steps (+ random multi-insertions) x random "
        "segmentation x silence from step k=0..5 x connect latency {0, 4.9, 5, 5.1, 12}. "
        "Oracle: the six requests in order, each written only after a frame of the awaited kind "
        "was delivered; init() True + public structure == installation; silent/late => False "
        "exactly at t0+5 with initialised false; never a hang or an exception. Non-trivial = "
        "init() returned and was judged; distinct = distinct (installation, extras, knobs).")
ASSUMPTIONS = ["the console answers as the vendor documents prescribe (SimConsole on refproto)",
               "an unsolicited truthful frame of the awaited kind counts as the answer",
               "connect latency of exactly 5 s races with the 5 s timeout: either result accepted"]
REQUIRED_OBS = ["second_init_judged", "names_listed_out_of_order", "last_step_gated", "init_true_judged", "init_false_judged", "extras_inserted", "zero_zone_at5",
                "zero_zone_at4",
                "bitmap_partitions", "old_format_multi_ac", "silence_cases", "late_connect_cases",
                "second_init_after_a_failed_one", "getters_read_during_init"]
BUDGET = {"quick": 100, "thorough": 1500}

EXTRAS = ["unsol_ac_status", "unsol_zone_status", "dup_version", "dup_names", "unknown_type",
          "unknown_sub", "other_client_status", "foreign_echo", "foreign_echo_from_console",
          "error_text"]
AWAITED = {
    "version_request": lambda rd: isinstance(rd, dict) and "update" in rd,
    "names_request": lambda rd: isinstance(rd, dict) and "names" in rd,
    "ability_request": lambda rd: isinstance(rd, dict) and "abilities" in rd,
    "ac_status_request": lambda rd: isinstance(rd, dict) and "acs" in rd,
    "timer_status_request": lambda rd: isinstance(rd, dict) and "timers" in rd,
    "zone_status_request": lambda rd: isinstance(rd, dict) and ("zones" in rd or "groups" in rd),
}
NAMES = ["Living", "Küche", "Büro", "寝室", "Bed 1", "Z", "Kids", "Master", "Ω", "Up", "Down",
         "Hall", "Attic", "Den", "Study", "Gym"]


def installation(gen, rnd, kind=None):
    n_acs = rnd.choice([1, 1, 2, 3, 4])
    total = rnd.choice([0, 1, 2, 3, 5, 8, 16]) if kind is None else kind
    # contiguous partition of `total` zones over the ACs
    cuts = sorted(rnd.randint(0, total) for _ in range(n_acs - 1))
    parts = [b - a for a, b in zip([0] + cuts, cuts + [total])]
    new_format = rnd.random() < 0.6
    names = [rnd.choice(NAMES)[:8] if gen == 4 else rnd.choice(NAMES) for _ in range(total)]
    names = [n if len(n.encode()) <= (8 if gen == 4 else 16) else "Z" for n in names]
    # a zone nobody has named: an empty name is a name
    names = [("" if rnd.random() < 0.12 else n) for n in names]
    inst = C.default_installation(gen, n_acs, tuple(parts), new_format=new_format, names=names)
    meta = {"bitmap": False, "old_multi": False}
    if gen == 4:
        if new_format:
            if rnd.random() < 0.5 and total:
                # random (non contiguous) bitmap partition; start/count are nonsense
                # (some named groups may belong to no AC at all: hidden groups)
                owner = [rnd.choice(list(range(n_acs)) + [None]) for _ in range(total)]
                for i, a in enumerate(inst["acs"]):
                    a["ability"]["groups"] = {z for z in range(total) if owner[z] == i}
                    a["ability"]["start"] = rnd.randint(0, 15)
                    a["ability"]["count"] = rnd.randint(0, 3)
                meta["bitmap"] = True
            else:
                for a in inst["acs"]:
                    if rnd.random() < 0.5:
                        a["ability"]["count"] = 0
                meta["bitmap"] = True
        elif n_acs == 1:
            if rnd.random() < 0.5:
                inst["acs"][0]["ability"]["count"] = 0  # observed in the wild
                inst["acs"][0]["ability"]["start"] = 0
        else:
            meta["old_multi"] = True
    if (n_acs + total) % 4 == 0:
        # a console with a long tale to tell about its software (the length byte is unsigned)
        inst["version"] = (total % 2 == 0, ["1.2.4-beta.20240131"] * 7)
    # leftovers behind the terminator of fixed-width name fields (not even valid UTF-8)
    for a in inst["acs"]:
        if rnd.random() < 0.3:
            a["ability"]["name_tail"] = rnd.choice([b"\xff", b"old name", b"\xc3"])
    if gen == 4:
        for z in inst["zones"]:
            if rnd.random() < 0.3:
                z["name_tail"] = rnd.choice([b"\xff", b"old", b"\xe2\x82"])
    return inst, meta


def expected_structure(inst):
    gen = inst["gen"]
    acs = {}
    all_zones = [z["id"] for z in inst["zones"]]
    for a in inst["acs"]:
        ab = a["ability"]
        if gen == 4 and ab.get("groups") is not None:
            zs = sorted(ab["groups"])
        elif gen == 4 and len(inst["acs"]) == 1:
            zs = list(all_zones)
        else:
            zs = list(range(ab["start"], ab["start"] + ab["count"]))
        acs[ab["ac"]] = {"name": ab["name"], "zones": zs}
    names = {z["id"]: z["name"] for z in inst["zones"]}
    return acs, names


def make_extra(con, name):
    g = con.gen
    if name == "unsol_ac_status":
        return [con.frame_ac_status()]
    if name == "unsol_zone_status":
        return [con.frame_zone_status()] if con.inst["zones"] else []
    if name == "dup_version":
        return [con.frame_version()]
    if name == "dup_names":
        return [con.frame_names()] if con.inst["zones"] else []
    if name == "unknown_type":
        return [con.frame_unknown(0x66, b"\x01\x02\x03")]
    if name == "unknown_sub":
        return [con.f_ext(0xFF77, b"\x09\x08")] if g == 4 else \
               [con.f_std(0xC0, R.c0(0x5A, 2, [b"ab"]))]
    if name == "other_client_status":
        return [con.frame_ac_status(to=0xB1)]
    if name == "foreign_echo":
        # a request of some other client echoed on the bus: must not count as "no zones"
        if g == 5:
            return [R.frame(5, 0x80, 0xB1, 7, 0x1F, R.ext(0xFF13)),
                    R.frame(5, 0x80, 0xB1, 8, 0xC0, R.c0_request(0x21))]
        return [R.frame(4, 0x80, 0xB1, 7, 0x2B, b""), R.frame(4, 0x90, 0xB1, 7, 0x1F,
                                                             R.ext(0xFF12))]
    if name == "foreign_echo_from_console":
        # the same request shapes, sent by the console to some other client
        if g == 5:
            return [R.frame(5, 0xB1, 0x80, 7, 0x1F, R.ext(0xFF13)),
                    R.frame(5, 0xB1, 0x80, 8, 0xC0, R.c0_request(0x21))]
        return [R.frame(4, 0xB1, 0x80, 7, 0x2B, b""), R.frame(4, 0xB1, 0x90, 7, 0x1F,
                                                             R.ext(0xFF12))]
    if name == "error_text":
        return [con.frame_error(0)]
    return []


def cases(tier, seed):
    rnd = random.Random(f"C09/{tier}/{seed}")
    # plain installations
    n = 120 if tier == "quick" else 40000
    for i in range(n):
        yield {"gen": rnd.choice((4, 5)), "seed": rnd.randrange(1 << 30), "extras": {},
               "seg": i % 5, "silent": None, "lat": 0.0, "again": i % 3 == 0}
    # every single insertion at each step
    for gen in (4, 5):
        for step in C.STEPS:
            for ex in EXTRAS:
                for seg in ((0, 1) if tier == "quick" else (0, 1, 2)):
                    yield {"gen": gen, "seed": rnd.randrange(1 << 30), "extras": {step: [ex]},
                           "seg": seg, "silent": None, "lat": 0.0}
                # the extra frames arrive, the answer only half a second later
                yield {"gen": gen, "seed": rnd.randrange(1 << 30), "extras": {step: [ex]},
                       "seg": 0, "silent": None, "lat": 0.0, "gap": 0.5}
    # random multi insertions
    m = 150 if tier == "quick" else 50000
    for i in range(m):
        ex = {}
        for _ in range(rnd.randint(2, 6)):
            ex.setdefault(rnd.choice(C.STEPS), []).append(rnd.choice(EXTRAS))
        lat = rnd.choice([0.0, 0.0, 1.0, 4.9])
        # (six gaps and the connect latency together stay well inside the 5 s init budget)
        yield {"gen": rnd.choice((4, 5)), "seed": rnd.randrange(1 << 30), "extras": ex,
               "seg": rnd.randrange(3), "silent": None, "lat": lat,
               "gap": rnd.choice([0.0, 0.0, 0.25]) if lat <= 1.0 else 0.0}
    # silence and late connects
    for gen in (4, 5):
        for k in range(0, 6):
            for lat in (0.0, 2.0):
                for rep in range(1 if tier == "quick" else 6):
                    yield {"gen": gen, "seed": rnd.randrange(1 << 30), "extras": {},
                           "seg": rep % 3, "silent": k, "lat": lat, "again": lat == 0.0}
        # the console stops answering at step k while unrelated traffic goes on
        for k in range(0, 6):
            for ex in EXTRAS:
                if ex in ("unsol_ac_status", "unsol_zone_status", "dup_version", "dup_names"):
                    # a truthful status of the awaited kind *is* an answer, whoever asked
                    continue
                yield {"gen": gen, "seed": rnd.randrange(1 << 30),
                       "extras": {C.STEPS[k]: [ex]}, "seg": k % 3, "silent": k, "lat": 0.0,
                       "extra_when_silent": True}
        for lat in (4.9, 5.0, 5.1, 12.0):
            for refuse in (0, 1, 3):
                yield {"gen": gen, "seed": rnd.randrange(1 << 30), "extras": {}, "seg": 0,
                       "silent": None, "lat": lat, "refuse": refuse, "again": True}
    # the application's retry loop around init()
    for gen in (4, 5):
        for step, pause, calls in ((0.9, 0.0, 4), (0.9, 0.5, 4), (1.5, 0.25, 5), (0.0, 0.0, 2),
                                   (0.1, 1.0, 3)):
            yield {"k": "retry", "gen": gen, "seed": rnd.randrange(1 << 30), "step": step,
                   "pause": pause, "calls": calls, "again_after_true": step < 0.5}
    for gen in (4, 5):
        for n in (1, 2):
            yield {"k": "retry", "gen": gen, "seed": 7100 + 10 * gen + n + seed, "step": 0.0,
                   "pause": 0.0, "calls": 1, "shutdown_first": n}
    for gen in (4, 5):
        for step, give_up, pause, calls in ((0.3, 0.5, 0.0, 8), (0.3, 1.0, 0.5, 6),
                                            (0.05, 0.1, 0.0, 8), (0.9, 2.0, 0.1, 6),
                                            (0.3, 0.01, 0.2, 12)):
            yield {"k": "retry", "gen": gen, "seed": rnd.randrange(1 << 30), "step": step,
                   "pause": pause, "calls": calls, "give_up": give_up}
    for gen in (4, 5):
        for steady, pause in ((0.0, 0.0), (1.0, 6.0), (400.0, 0.5)):
            yield {"k": "overlap", "gen": gen, "seed": rnd.randrange(1 << 30), "steady": steady,
                   "pause": pause}
    for gen in (4, 5):
        for refusals, calls in ((1, 1), (1, 9), (1, 10), (1, 12), (2, 10)):
            yield {"k": "busy_init", "gen": gen, "seed": rnd.randrange(1 << 30),
                   "refusals": refusals, "calls": calls}
    # zero zones explicitly
    for gen in (4, 5):
        for i in range(6):
            yield {"gen": gen, "seed": rnd.randrange(1 << 30), "extras": {}, "seg": i % 3,
                   "silent": None, "lat": 0.0, "zones": 0}


def segmenter(mode, rnd):
    if mode == 0:
        return None
    if mode == 1:
        return lambda raw: [(0.0, bytes([b])) for b in raw]  # byte at a time

    if mode == 3:
        # every frame in two segments with a pause of 0.4 s at a random cut (six answers:
        # 2.4 s, inside the 5 s budget)
        def seg3(raw):
            cut = rnd.randint(1, len(raw) - 1)
            return [(0.0, raw[:cut]), (0.4, raw[cut:])]
        return seg3
    if mode == 4:
        # one frame of the handshake stalls for 1.5 s in the middle
        state = {"n": 0, "at": rnd.randint(0, 5)}

        def seg4(raw):
            state["n"] += 1
            if state["n"] - 1 == state["at"]:
                cut = rnd.randint(1, len(raw) - 1)
                return [(0.0, raw[:cut]), (1.5, raw[cut:])]
            return [(0.0, raw)]
        return seg4

    def seg(raw):
        out = []
        i = 0
        while i < len(raw):
            n = rnd.randint(1, 9)
            out.append((rnd.choice([0.0, -1, -2, 0.001]), raw[i:i + n]))
            i += n
        return out
    return seg


def run_retry(case):
    """The application's retry loop: init() is called again whenever it returned False, against
    a console that answers every request - but not fast enough for one call (or only after an
    outage)."""
    gen = case["gen"]
    rnd = random.Random(case["seed"])
    inst, meta = installation(gen, rnd, None)
    viol, obs, out = [], {}, {}

    async def main(loop, net, log):
        knobs = C.Knobs(latency=case["step"])
        w = AW.ModelWorld(gen, loop, net, log, inst, knobs)
        if case.get("shutdown_first"):
            # a tidy application: shutdown() in a finally block, also when init() was never
            # reached - and the object is used again later
            for _ in range(case["shutdown_first"]):
                await w.at.shutdown()
            await quiesce(loop)
            obs["init_after_shutdown_of_a_never_initialised_object"] = 1
        rets = []
        for attempt in range(case["calls"]):
            if case.get("give_up"):
                # the application has a shorter time-out of its own: it cancels the pending
                # init() and tries again
                r = await H.probe(log, "init", asyncio.wait_for(w.at.init(), case["give_up"]))
                if isinstance(r, asyncio.TimeoutError):
                    r = "gave up"
                    obs["init_calls_cancelled_by_the_application"] = obs.get(
                        "init_calls_cancelled_by_the_application", 0) + 1
            else:
                r = await H.probe(log, "init", w.at.init())
            rets.append(r)
            if r is True and not case.get("again_after_true"):
                break
            await asyncio.sleep(case["pause"])
        await asyncio.sleep(6 * case["step"] + 1.0)
        await quiesce(loop)
        out["rets"] = rets
        out["initialised"] = w.at.initialised
        out["snap"] = H.snapshot(w.at)
        # still alive: a status push must show
        w.console.knobs.latency = 0.0
        c = w.conn()
        if c is not None:
            from . import c10
            w.feed()
            o2 = {}
            raw = c10.make_frame(gen, rnd, w, None, o2, kinds=["zone" if inst["zones"] else "ac"])
            await w.inject(raw)
            w.feed()
            out["diff_after_push"] = RMdiff(w)
        out["conn"] = c is not None
        await w.at.shutdown()

    def RMdiff(w):
        from .. import refmodel as RM
        return RM.diff(w.model.expected(), H.snapshot(w.at))[:3]

    _, log, st = H.run(main)
    info = {k: case.get(k) for k in ("gen", "step", "pause", "calls", "give_up")}
    if st != "ok":
        viol.append({"mechanism": "init-retry-scenario-hang", "detail": dict(info, status=st)})
    elif any(isinstance(r, Exception) for r in out["rets"]):
        viol.append({"mechanism": "init-raises", "detail": dict(info, rets=repr(out["rets"]))})
    elif not out["initialised"] or out["rets"][-1] is not True:
        viol.append({"mechanism": "init-retried-against-answering-console-never-succeeds",
                     "detail": dict(info, rets=repr(out["rets"]),
                                    initialised=out["initialised"])})
    elif out.get("diff_after_push") or not out["conn"]:
        viol.append({"mechanism": "object-no-longer-follows-the-console-after-repeated-init",
                     "detail": dict(info, rets=repr(out["rets"]),
                                    diff=out.get("diff_after_push"))})
    else:
        obs["init_retry_loops_judged"] = 1
    return {"violations": viol, "evals": 1, "decided": 0 if viol else 1, "distinct": 1,
            "obs": obs, "sample": info}


def run_busy_init(case):
    """The application already uses the object while init() is still waiting for the console
    to become reachable: update checks (up to a full buffer of them) are submitted during the
    refusals; when the console answers, init() succeeds all the same."""
    gen = case["gen"]
    rnd = random.Random(case["seed"])
    inst, meta = installation(gen, rnd, None)
    viol, obs, out = [], {}, {}

    async def main(loop, net, log):
        for _ in range(case["refusals"]):
            net.script.append(("refuse", 0.0))
        w = AW.ModelWorld(gen, loop, net, log, inst, C.Knobs())
        t0 = loop.time()
        it = loop.create_task(w.at.init())
        # (half a second before the attempt that succeeds: the requests are still alive then)
        await asyncio.sleep(2.0 * case["refusals"] - 0.5)
        raised = 0
        for _ in range(case["calls"]):
            try:
                await w.at.check_for_updates()
            except Exception:  # noqa: BLE001  (the eleventh is refused: the buffer is full)
                raised += 1
        out["raised"] = raised
        out["ret"] = await it
        out["t"] = loop.time() - t0
        await quiesce(loop)
        out["initialised"] = w.at.initialised
        out["snap"] = H.snapshot(w.at)
        await w.at.shutdown()

    _, log, st = H.run(main)
    info = {"gen": gen, "refusals": case["refusals"], "calls": case["calls"]}
    if st != "ok":
        viol.append({"mechanism": "init-scenario-hang", "detail": dict(info, status=st)})
    elif out["ret"] is not True or not out["initialised"]:
        viol.append({"mechanism": "init-false-against-answering-console:requests-pending",
                     "detail": dict(info, ret=repr(out["ret"]), t=out["t"],
                                    refused_calls=out["raised"])})
    else:
        acs, names = expected_structure(inst)
        if set(out["snap"]["acs"]) != set(acs):
            viol.append({"mechanism": "air-conditioners-differ-from-console",
                         "detail": dict(info, got=sorted(out["snap"]["acs"]), want=sorted(acs))})
        else:
            obs["init_with_requests_pending"] = 1
    return {"violations": viol, "evals": 1, "decided": 0 if viol else 1, "distinct": 1,
            "obs": obs, "sample": info}


def run_overlap(case):
    """init() issued by another task while shutdown() has not returned yet (it has only just
    started: one loop turn). Whatever that call returns - once both calls are over, a plain
    init() against the answering console works."""
    gen = case["gen"]
    rnd = random.Random(case["seed"])
    inst, meta = installation(gen, rnd, None)
    viol, obs, out = [], {}, {}

    async def main(loop, net, log):
        w = AW.ModelWorld(gen, loop, net, log, inst, C.Knobs())
        if await w.init() is not True:
            out["first"] = False
            return
        await asyncio.sleep(case["steady"])
        sd = loop.create_task(w.at.shutdown())
        await asyncio.sleep(0)
        out["overlapped"] = await H.probe(log, "init", w.at.init())
        await sd
        await asyncio.sleep(case["pause"])
        await quiesce(loop)
        out["later"] = await H.probe(log, "init", w.at.init())
        await quiesce(loop)
        out["initialised"] = w.at.initialised
        out["snap"] = H.snapshot(w.at)
        await w.at.shutdown()
        await quiesce(loop)
        out["open_at_end"] = [c.id for c in net.open_conns()]

    _, log, st = H.run(main)
    info = {"gen": gen, "steady": case["steady"], "pause": case["pause"]}
    if st != "ok":
        viol.append({"mechanism": "init-overlap-scenario-hang", "detail": dict(info, status=st)})
    elif out.get("first") is False:
        pass
    elif out["later"] is not True or not out["initialised"]:
        viol.append({"mechanism": "init-fails-after-an-init-that-overlapped-a-shutdown",
                     "detail": dict(info, overlapped=repr(out["overlapped"]),
                                    later=repr(out["later"]))})
    else:
        acs, names = expected_structure(inst)
        got = set(out["snap"]["acs"])
        if got != set(acs):
            viol.append({"mechanism": "air-conditioners-differ-from-console",
                         "detail": dict(info, got=sorted(got), want=sorted(acs))})
        elif out["open_at_end"]:
            viol.append({"mechanism": "connection-left-open-after-final-shutdown",
                         "detail": dict(info, open=out["open_at_end"])})
        else:
            obs["init_overlapping_a_shutdown"] = 1
    return {"violations": viol, "evals": 1, "decided": 0 if viol else 1, "distinct": 1,
            "obs": obs, "sample": info}


def run_case(case):
    if case.get("k") == "retry":
        return run_retry(case)
    if case.get("k") == "overlap":
        return run_overlap(case)
    if case.get("k") == "busy_init":
        return run_busy_init(case)
    gen = case["gen"]
    rnd = random.Random(case["seed"])
    inst, meta = installation(gen, rnd, case.get("zones"))
    viol = []
    obs = {}
    out = {}

    def extra(step, con):
        frames = []
        for name in case["extras"].get(step, []):
            frames += make_extra(con, name)
        if frames:
            obs["extras_inserted"] = obs.get("extras_inserted", 0) + len(frames)
        return frames

    order = None
    if rnd.random() < 0.4 and len(inst["zones"]) > 1:
        # the names answer lists the zones in some other order than ascending
        perm = list(range(len(inst["zones"])))
        rnd.shuffle(perm)
        order = lambda zs, perm=perm: [zs[i] for i in perm if i < len(zs)]  # noqa: E731
        obs["names_listed_out_of_order"] = 1
    knobs = C.Knobs(extra=extra if case["extras"] else None, silent_from=case["silent"],
                    names_order=order,
                    extra_when_silent=case.get("extra_when_silent", False),
                    answer_gap=case.get("gap", 0.0),
                    segmenter=segmenter(case["seg"], rnd))

    async def main(loop, net, log):
        for _ in range(case.get("refuse", 0)):
            net.script.append(("refuse", 0.0))
        if case["lat"]:
            net.script.append(("accept", case["lat"]))
        w = AW.ModelWorld(gen, loop, net, log, inst, knobs)
        if case["seed"] % 2 == 0:
            # another task of the application looks at the object while init() is running
            # (every public attribute, each time a request reaches the console)
            handle0 = w.console._handle

            def handle(conn, f, cmd):
                H.snapshot(w.at)
                obs["getters_read_during_init"] = obs.get("getters_read_during_init", 0) + 1
                return handle0(conn, f, cmd)
            w.console._handle = handle
        t0 = loop.time()
        r = await w.init()
        out["ret_seq"] = log.mark()
        out["ret"], out["t"] = r, loop.time() - t0
        out["initialised_at_return"] = w.at.initialised
        out["snap"] = H.snapshot(w.at)
        out["requests"] = w.console.requests()
        await asyncio.sleep(0.5)
        await w.at.shutdown()
        await quiesce(loop)
        out["first_end"] = log.mark()
        if case.get("again"):
            # (also after an init() that gave up: the console was silent, or the connection
            # attempt was still in flight when shutdown() came)
            if r is not True:
                obs["second_init_after_a_failed_one"] = 1
            # the same object initialised once more, against whatever the console describes
            # THEN (another installation, often a smaller one)
            inst2, _m2 = installation(gen, rnd, rnd.choice([0, 1, 2, None]))
            net.script.clear()
            w.console = C.SimConsole(net, inst2, C.Knobs())
            out["again_ret"] = await H.probe(log, "init", w.at.init())
            await quiesce(loop)
            out["again_snap"] = H.snapshot(w.at)
            out["again_want"] = expected_structure(inst2)
            await w.at.shutdown()
            await quiesce(loop)

    _, log, st = H.run(main)

    def v(mech, **d):
        viol.append({"mechanism": mech, "detail": d, "log": H.log_slice(log, 40)})

    if "again_ret" in out:
        if out["again_ret"] is not True:
            if not (gen == 4 and not out["again_want"][1]):
                v("second-init-of-the-same-object-fails", ret=repr(out["again_ret"]))
        else:
            acs2, names2 = out["again_want"]
            snap2 = out["again_snap"]
            got = {a: sorted(x["zones"]) for a, x in snap2["acs"].items()}
            want = {a: sorted(e["zones"]) for a, e in acs2.items()}
            if got != want:
                v("second-init-exposes-other-entities-than-the-console-described", got=got,
                  want=want)
            else:
                obs["second_init_judged"] = 1

    if st != "ok":
        v("init-hangs", status=st, got=out.get("ret"))
        return {"violations": viol, "evals": 1, "decided": 0, "obs": obs}
    ret = out["ret"]
    if isinstance(ret, Exception):
        v("init-raises", exc=repr(ret))
        return {"violations": viol, "evals": 1, "decided": 1, "obs": obs}
    refuse = case.get("refuse", 0)
    connect_at = case["lat"] + 2.0 * refuse
    silent = case["silent"] is not None
    must_fail = silent or connect_at > 5.0
    race = abs(connect_at - 5.0) < 1e-9
    zero4 = gen == 4 and not inst["zones"]
    if silent:
        obs["silence_cases"] = 1
    if connect_at >= 4.9:
        obs["late_connect_cases"] = 1
    # ---- request order and gating (always)
    reqs = [(t, c, k) for t, c, k in out["requests"]]
    six = [k for t, c, k in reqs if k in C.STEPS]
    upto = six[:6]
    if upto != C.STEPS[:len(upto)]:
        v("discovery-requests-out-of-order", requests=six[:10])
    gate_events = []
    for seq, t, kind, d in log.events:
        if seq >= out.get("first_end", 10 ** 12):
            break   # (a second session of the same object is judged separately)
        if kind == "CON.frame" and d["cmd"]["kind"] in C.STEPS:
            gate_events.append((seq, "req", d["cmd"]["kind"]))
        elif kind == "NET.deliver":
            gate_events.append((seq, "data", d))
    # reassemble delivered frames with the seq at which their last byte arrived
    buf = bytearray()
    delivered = []
    for seq, what, x in gate_events:
        if what == "data":
            buf += x["data"]
            frames, rest, err = R.parse_stream(gen, bytes(buf))
            if err:
                buf.clear()
                continue
            del buf[:len(buf) - len(rest)]
            for f in frames:
                if f.crc_ok:
                    try:
                        rd = R.read_status(gen, f.typ, f.data)
                    except R.Reject:
                        rd = None
                    delivered.append((seq, f, rd))
    req_seq = [(seq, k) for seq, what, k in gate_events if what == "req"]

    def accepts(k, f, rd):
        # (a truthful frame of the awaited kind counts whoever it is addressed to: the client
        # cannot tell it from the answer and the content is the same)
        if AWAITED[k](rd):
            return True
        # AT5 zero-zone echo (addressed to the client) counts as the names / zone status
        # answer (AT4: the empty answer of a console without groups is the same bytes as a
        # request)
        return (isinstance(rd, dict) and rd.get("request") is not None
                and k in ("names_request", "zone_status_request") and f.to == R.ADDR_CLIENT
                and not inst["zones"])

    # The client handles frames in stream order and enters step k the moment it handles the
    # frame that ended step k-1 (the request goes out from that very handler). So the frame
    # that ends step k is the first acceptable one BEHIND the previous trigger in the stream -
    # it may have reached the socket before request k was even written - and it must have
    # arrived completely before request k+1 is seen (before init() returned, for the last).
    six_reqs = []
    for sq, k in req_seq:
        if len(six_reqs) < 6 and k == C.STEPS[len(six_reqs)]:
            six_reqs.append((sq, k))
    trigger = -1
    for i, (s_i, k_i) in enumerate(six_reqs):
        if i + 1 < len(six_reqs):
            bound, last_step = six_reqs[i + 1][0], False
        elif i == 5 and out["ret"] is True:
            bound, last_step = out["ret_seq"] + 1, True
        else:
            break
        cand = [j for j, (seq, f, rd) in enumerate(delivered)
                if j > trigger and seq < bound and accepts(k_i, f, rd)]
        if not cand:
            if last_step:
                v("init-true-before-last-answer-delivered", t=out["t"])
            else:
                v("next-request-before-answer-delivered", step=k_i, next=six_reqs[i + 1][1])
            break
        trigger = cand[0]
        if last_step:
            obs["last_step_gated"] = 1
    # ---- return value
    if must_fail and not race:
        if ret is not False:
            v("init-true-although-console-silent-or-late", ret=ret, t=out["t"])
        elif abs(out["t"] - 5.0) > 1e-6:
            v("init-false-not-after-five-seconds", t=out["t"])
        elif out["initialised_at_return"]:
            v("initialised-true-after-failed-init")
        else:
            obs["init_false_judged"] = 1
        return {"violations": H.cap(viol), "evals": 1, "decided": 1, "obs": obs,
                "sample": {"gen": gen, "silent": case["silent"], "lat": case["lat"]}}
    if race:
        return {"violations": H.cap(viol), "evals": 1, "decided": 1,
                "obs": dict(obs, init_false_judged=0), "sample": case}
    if ret is not True:
        v("init-false-against-answering-console" + (":at4-zero-groups" if zero4 else ""),
          ret=ret, t=out["t"], requests=six,
          inst={"acs": len(inst["acs"]), "zones": len(inst["zones"])})
        return {"violations": H.cap(viol), "evals": 1, "decided": 1, "obs": obs}
    if not out["initialised_at_return"]:
        v("init-true-but-not-initialised")
    if len(six) < 6 or six[:6] != C.STEPS:
        v("discovery-requests-out-of-order", requests=six[:10])
    # ---- structure
    acs, names = expected_structure(inst)
    snap = out["snap"]
    if set(snap["acs"]) != set(acs):
        v("air-conditioners-differ-from-console", got=sorted(snap["acs"]), want=sorted(acs))
    else:
        for a, e in acs.items():
            s = snap["acs"][a]
            if s["name"] != e["name"]:
                v("ac-name-differs", ac=a, got=s["name"], want=e["name"])
            got_z = s["zones"]
            want_z = e["zones"]
            # (which zones belong to the AC is what is stated; not the order they are listed in)
            if sorted(got_z) != sorted(want_z) or len(got_z) != len(set(got_z)):
                v("zone-to-ac-assignment-wrong", ac=a, got=got_z, want=want_z,
                  bitmap=meta["bitmap"], abilities=[(x["ability"]["start"], x["ability"]["count"],
                                                     sorted(x["ability"].get("groups") or []))
                                                    for x in inst["acs"]])
            for z in got_z:
                zs = snap["zones"].get(z)
                if zs is None or zs["name"] != names.get(z):
                    v("zone-name-differs", zone=z, got=zs and zs["name"], want=names.get(z))
    if not case["extras"]:
        # plain handshake: the whole model must equal the installation's report
        m = RM.RefModel(gen)
        for seq, f, rd in delivered:
            m.apply(f.typ, f.data, f.to)
        dd = RM.diff(m.expected(), snap)
        if dd:
            v("model-after-init-differs-from-console-report", diff=dd[:3])
    obs["init_true_judged"] = 1
    if gen == 5 and not inst["zones"]:
        obs["zero_zone_at5"] = 1
    if gen == 4 and not inst["zones"]:
        obs["zero_zone_at4"] = 1
    if meta["bitmap"]:
        obs["bitmap_partitions"] = 1
    if meta["old_multi"]:
        obs["old_format_multi_ac"] = 1
    return {"violations": H.cap(viol), "evals": 1, "decided": 1, "obs": obs,
            "sample": {"gen": gen, "acs": len(inst["acs"]), "zones": len(inst["zones"]),
                       "extras": case["extras"], "seg": case["seg"]}}
