"""C07 — the connection heals itself, never wedges, and stays single."""

from __future__ import annotations

import asyncio
import itertools
import random

from .. import frames as F
from .. import harness as H
from .. import refproto as R
from .. import sockscript as S
from ..sockworld import quiesce, describe, baseline_delivery

ID = "C07"
LEVEL = "fault_enumeration"
EXHAUSTIVE = {"quick": False, "thorough": False}
RULE = ("Fault scripts over {refuse, accept with latency 0.5/2/2+eps, peer FIN, peer RST, "
        "garbage, bad-CRC frame, truncated frame (then stall or FIN), write error on the n-th "
        "write, unencodable message queued (ValueError kind and struct.error kind), raising "
        "message subscriber, raising connection subscriber} x a concurrent send {none, same "
        "loop iteration, from another task} x a gap {0..2 loop turns, eps, 2 s, 2 s+eps}: all "
        "scripts of depth 1 (and depth 2 in the thorough tier), sampled at depth 2..5; driven "
        "against a real AirTouchSocket of either registry. After the script the network behaves "
        "and the recovery oracle runs (connected within 2 s + latency + 1 s, a status probe is "
        "delivered, a probe command is written, one connection, all others closed). "
        "Non-trivial = at least one fault atom took effect and the recovery oracle ran to its "
        "end; distinct = distinct op lists.")
ASSUMPTIONS = ["SimTransport mirrors asyncio's selector transport (write after loss ignored, "
               "connection_lost via call_soon, drain sees the error)",
               "after a partial frame was left on a still-open connection the stream is "
               "desynchronised by construction: probes are repeated up to 65535 bytes + 3 frames",
               "a stalled (not reading) peer is always un-stalled or reset before the oracle runs"]
REQUIRED_OBS = ["recovered", "resets_seen", "fault_atoms_effective", "probe_cmd_written",
                "probe_status_delivered", "api_level_recoveries"]
SOAK = True   # also judged by the whole-run monitors of the soak sessions (vf/soak.py)
# (the instants this check judges are measured against non-eager task start-up: DESIGN 12)
EAGER_OK = False
BUDGET = {"quick": 100, "thorough": 1500}

EPS = 1e-6
MAX_PROBE_BYTES = 65535


def fault_atoms():
    return [
        [["net", "refuse", 0.0]],
        # a connection attempt can fail with other OSErrors than "refused"
        [["net", "unreachable", 0.0]], [["net", "timeout", 1.0]], [["net", "gaierror", 0.0]],
        [["fin"], ["net", "timeout", 0.5], ["net", "unreachable", 0.0]],
        [["net", "accept", 0.5]],
        [["net", "accept", 2.0]],
        [["net", "accept", 2.0 + EPS]],
        [["fin"]],
        [["rst"]],
        [["garbage"]],
        [["badcrc"]],
        [["trunc"]],
        [["trunc"], ["fin"]],
        [["undecodable_value"]],
        [["undecodable_struct"]],
        [["undecodable_index"]],
        [["wfail", 1]],
        [["wfail", 2]],
        [["wfail", 3]],
        [["send_bad", "value", "inline"]],
        [["send_bad", "struct", "inline"]],
        # the caller-supplied-header entry point holds a message nothing can encode at all
        [["send_bad", "unregistered", "hdr"]],
        [["net", "refuse", 0.0], ["fin"], ["q"], ["send_bad", "unregistered", "hdr"],
         ["send", "zone_ctrl", "idem", "inline"]],
        [["net", "refuse", 0.0], ["fin"], ["q"], ["send_bad", "struct", "hdr"],
         ["send_bad", "value", "hdr"]],
        [["sub_raise", "msg", 1], ["status"]],
        [["sub_raise", "conn", 1]],
        # a subscriber that ends with the cancellation of something it awaited
        [["sub_raise", "msg", 2], ["status"]],
        [["sub_raise", "conn", 2], ["fin"]],
        [["sub_raise", "msg", 2], ["sub_raise", "conn", 2], ["status"], ["rst"], ["status"]],
        [["rst", "timeout"]], [["rst", "oserror"]],
        [["fin"], ["net", "refuse", 0.0]],
        [["rst"], ["net", "refuse", 0.0], ["net", "refuse", 0.0]],
        [["reset"]],                                   # public reset_connection() (heartbeat)
        [["net", "refuse", 0.0], ["fin"], ["adv", 0.5], ["reset"]],   # ... during the back-off
        [["stall"], ["send", "zone_ctrl", "idem", "t3"], ["turns", 2], ["fin"], ["unstall"]],
        [["stall"], ["send", "ac_ctrl", "idem", "t3"], ["send", "zone_ctrl", "long", "t2"],
         ["turns", 2], ["rst"]],
        [["wfail", 1, "timeout"]], [["wfail", 2, "oserror"]], [["wfail", 1, "reset"]],
        # a subscriber that submits a message from inside the disconnected notification,
        # while the failure is being handled by the send path / by the reader
        [["on_disconnect_send", "zone_ctrl", "idem"], ["wfail", 1]],
        [["on_disconnect_send", "ac_ctrl", "long"], ["wfail", 2], ["send", "zone_ctrl", "idem", "t1"]],
        [["on_disconnect_send", "zone_ctrl", "idem"], ["rst"]],
        [["on_disconnect_send", "zone_ctrl", "idem"], ["on_connect_send", "ac_ctrl", "idem"],
         ["fin"]],
        [["slow_conn", 3.0], ["fin"]],
        # the socket is re-opened from inside the disconnected notification of its own close()
        # (the explicit open afterwards is a no-op then; it re-opens if an earlier
        # disconnection had already used up the hook)
        [["on_disconnect_open"], ["close"], ["open"]],
        [["on_disconnect_open"], ["slow_conn", 1.0], ["close"], ["open"], ["status"]],
        [["open"]],                        # open_socket() while open
        # the client is configured with a host name and the console comes back under that
        # name at another address
        [["dns_move", "10.0.0.77"], ["fin"]],
        [["dns_move", "10.0.0.77"], ["rst"], ["net", "refuse", 0.0]],
        [["fin"], ["adv", 0.5], ["dns_move", "10.0.0.78"], ["wfail", 1],
         ["send", "zone_ctrl", "idem", "inline"]],
        # many faults of one kind over the life of one socket
        [["badcrc"], ["adv", 2.5]] * 12,
        [["garbage"], ["adv", 2.5], ["status"], ["undecodable_value"], ["adv", 2.5]] * 6,
        # a write error, a slow reconnection, and the application gives up on the command
        [["net", "accept", 3.0], ["wfail", 1], ["send", "zone_ctrl", "idem", "t1"], ["adv", 1.0],
         ["cancel_sends"]],
        [["net", "accept", 3.0], ["wfail", 2], ["send", "ac_ctrl", "long", "t1"],
         ["send", "zone_ctrl", "idem", "t2"], ["adv", 0.5], ["cancel_sends"], ["adv", 0.5]],
        # the link is reset from the send side / by reset_connection() while the receive loop
        # is held up in a subscriber, which returns when the next connection already exists
        [["slow_msg", 3.0], ["status"], ["adv", 0.5], ["wfail", 1],
         ["send", "zone_ctrl", "idem", "inline"]],
        [["slow_msg", 3.0], ["status"], ["adv", 0.5], ["reset"]],
        [["slow_msg", 1.0], ["status"], ["turns", 2], ["reset"], ["adv", 0.5], ["status"]],
        # a subscriber that fails when it is called (not when it is awaited)
        [["sync_raise", "msg"], ["status"]],
        [["sync_raise", "conn"], ["fin"]],
        [["sync_raise", "both"], ["rst"], ["status"]],
        # subscribers that return a Future / gather / Task / custom awaitable
        [["odd_subs"], ["fin"], ["status"]],
        [["odd_subs"], ["wfail", 1]],
        # no connection subscriber at all / no message subscriber / nobody listening
        [["drop_subs", "conn"], ["fin"], ["status"]],
        [["drop_subs", "conn"], ["rst"], ["adv", 0.5], ["wfail", 1]],
        [["drop_subs", "msg"], ["status"], ["fin"]],
        [["drop_subs", "both"], ["status"], ["rst"], ["status"]],
    ]


SENDS = [[], [["send", "zone_ctrl", "idem", "inline"]], [["send", "ac_ctrl", "idem", "t1"]],
         [["send", "quick_timer", "nonidem", "t1"], ["send", "zone_ctrl", "idem", "t2"]]]
GAPS = [[], [["turns", 1]], [["turns", 2]], [["adv", EPS]], [["adv", 2.0]], [["adv", 2.0 + EPS]],
        [["q"]]]


API_ATOMS = [
    [("net", "refuse", 0.0), ("fin",)],
    [("net", "timeout", 1.0), ("net", "gaierror", 0.0), ("net", "unreachable", 0.0), ("rst",)],
    [("net", "accept", 0.5), ("rst",)],
    [("net", "accept", 2.0 + EPS), ("fin",)],
    [("fin",)], [("rst",)], [("garbage",)], [("badcrc",)], [("trunc",)],
    [("trunc",), ("fin",)],
    [("undecodable_value",)], [("undecodable_struct",)], [("undecodable_index",)],
    [("wfail", 1), ("cmd", "ac_on")], [("wfail", 2), ("cmd", "zone_damper")],
    [("wfail", 3), ("cmd", "ac_toggle")],
    [("cmd", "zone_setpoint_300")],        # struct.error kind, through the public API
    [("cmd", "zone_setpoint_nan")],        # ValueError kind (AT5) / refused locally (AT4)
    # other values no wire format has room for, sent at once and held during an outage
    [("cmd", "zone_setpoint_inf")], [("cmd", "ac_setpoint_inf")], [("cmd", "zone_setpoint_huge")],
    [("cmd", "timer_huge")], [("cmd", "zone_damper_float")],
    [("net", "refuse", 0.0), ("fin",), ("q",), ("cmd", "zone_setpoint_inf")],
    [("net", "refuse", 0.0), ("fin",), ("q",), ("cmd", "ac_setpoint_inf"), ("cmd", "ac_on")],
    [("net", "refuse", 0.0), ("rst",), ("q",), ("cmd", "zone_setpoint_huge")],
    [("net", "refuse", 0.0), ("fin",), ("q",), ("cmd", "zone_setpoint_300")],
    [("net", "refuse", 0.0), ("fin",), ("q",), ("cmd", "zone_setpoint_inf"),
     ("cmd", "zone_setpoint_inf")],
    [("net", "refuse", 0.0), ("rst",), ("q",), ("cmd", "zone_setpoint_inf"), ("cmd", "ac_on"),
     ("cmd", "zone_setpoint_inf"), ("cmd", "zone_damper")],
    [("net", "refuse", 0.0), ("fin",), ("q",), ("cmd", "zone_setpoint_nan"), ("cmd", "timer_huge")],
    [("fin",), ("cmd", "ac_on"), ("cmd", "zone_damper")],
    [("rst",), ("cmd", "ac_on")],
    [("sub_raise",), ("status_change",)],
    [("net", "refuse", 0.0), ("net", "refuse", 0.0), ("rst",), ("cmd", "ac_on")],
    [("net", "accept", 0.0, 2), ("fin",)],   # write fault on the refresh requests
    [("net", "accept", 0.0, 1), ("net", "accept", 0.0, 4), ("rst",)],
    [("cmd", "ac_on")], [("status_change",)],
    # a console that stops answering while the link stays up: only the heartbeat notices
    [("mute",), ("adv", 700.0)],
    [("mute",), ("adv", 331.0), ("cmd", "ac_on")],
    [("mute",), ("adv", 400.0), ("net", "refuse", 0.0), ("adv", 300.0)],
]


def expand(gen, ops):
    """Replace symbolic peer-data ops by concrete bytes."""
    out = []
    for op in ops:
        if op[0] == "garbage":
            out.append(["data", "00ff13377f55aa"])
        elif op[0] == "badcrc":
            raw = bytearray(F.probe_frame(gen, 9))
            raw[-1] ^= 0x5A
            out.append(["data", bytes(raw).hex()])
        elif op[0] == "trunc":
            out.append(["data", F.probe_frame(gen, 9)[:5].hex()])
        elif op[0] == "status":
            out.append(["data", F.probe_frame(gen, 11).hex()])
        elif op[0] == "undecodable_value":
            # well-formed frame (right CRC) whose payload no decoder accepts: AC status with
            # an undefined mode code -> ValueError from the enum
            if gen == 4:
                raw = R.frame(4, R.ADDR_CLIENT, 0x80, 5, 0x2D, bytes([0x40, 0xF2, 0x1A, 0, 0x61,
                                                                      0x80, 0, 0]))
            else:
                raw = R.frame(5, R.ADDR_CLIENT, 0x80, 5, 0xC0, R.c0(0x23, 8, [bytes(
                    [0x10, 0xF2, 0x78, 0xC0, 0x02, 0xDA, 0, 0])]))
            out.append(["data", raw.hex()])
        elif op[0] == "undecodable_struct":
            # consistent frame length but fewer bytes than the sub-structure needs:
            # struct.error inside a decoder
            if gen == 4:
                raw = R.frame(4, R.ADDR_CLIENT, 0x90, 6, 0x1F, R.ext(0xFF11, b"\x00\x16UNIT"))
            else:
                raw = R.frame(5, R.ADDR_CLIENT, 0x80, 6, 0xC0,
                              bytes([0x21, 0, 0, 0, 0, 8, 0, 3]) + bytes(8))
            out.append(["data", raw.hex()])
        elif op[0] == "undecodable_index":
            # well-formed frame whose body ends before a field a decoder indexes directly
            # (one-byte console version body; empty error information): IndexError kind
            body = R.ext(0xFF30, b"\x00") if gen == 4 else R.ext(0xFF10, b"")
            out.append(["data", R.frame(gen, R.ADDR_CLIENT, 0x90, 7, 0x1F, body).hex()])
        else:
            out.append(op)
    return out


def build(elements):
    ops = []
    for atom, send, gap in elements:
        ops += atom + send + gap
    return ops


def cases(tier, seed):
    rnd = random.Random(f"C07/{tier}/{seed}")
    A = fault_atoms()
    # anchors: minimal witnesses of the defects this check has found (D2, D3, D11)
    anchors = [
        ("D2", [["q"], ["rst"], ["send", "zone_ctrl", "idem", "inline"]]),
        ("D2b", [["q"], ["fin"], ["send", "zone_ctrl", "idem", "t1"],
                 ["send", "ac_ctrl", "idem", "t2"]]),
        ("D3", [["net", "refuse", 0.0], ["send_bad", "struct", "inline"], ["adv", 2.0]]),
        ("D11", [["net", "refuse", 0.0], ["send_bad", "value", "inline"],
                 ["send_bad", "value", "inline"], ["send", "zone_ctrl", "long", "inline"],
                 ["adv", 2.0]]),
        ("D11b", [["net", "refuse", 0.0], ["send_bad", "value", "inline"],
                  ["send", "zone_ctrl", "long", "inline"], ["adv", 2.0]]),
    ]
    # an outage of more than a thousand failed attempts in a row (an hour of retries)
    anchors.append(("long_outage", [["q"], ["net_default", "refuse", 0.0], ["fin"],
                                    ["adv", 2300.0]]))
    anchors.append(("odd_subscribers", [["odd_subs"], ["q"], ["status"], ["rst"], ["adv", 0.5],
                                        ["send", "zone_ctrl", "idem", "inline"]]))
    for gen in (4, 5):
        for name, ops in anchors:
            yield {"gen": gen, "ops": ops, "anchor": name}
    # depth 1 exhaustive (with an initial settle or not)
    for gen in (4, 5):
        for pre in ([], [["q"]]):
            for atom in A:
                for send in SENDS:
                    for gap in GAPS:
                        yield {"gen": gen, "ops": pre + build([(atom, send, gap)])}
    if tier == "thorough":
        from .. import fidelity
        for name in sorted(fidelity.SCENARIOS):
            yield {"k": "fidelity", "scenario": name, "gen": 4, "ops": []}
        for gen in (4, 5):
            for a1, a2 in itertools.product(A, A):
                for s1, s2 in itertools.product(SENDS[:3], SENDS[:3]):
                    for g1 in (GAPS[0], GAPS[1], GAPS[4]):
                        yield {"gen": gen, "ops": [["q"]] + build([(a1, s1, g1),
                                                                    (a2, s2, GAPS[0])])}
    # API level: the same kind of fault scripts with handshake, refresh and heartbeat
    # traffic present (the API's own subscribers send messages from inside the socket's
    # notifications)
    m = 500 if tier == "quick" else 80000
    for gen in (4, 5):
        for atom in API_ATOMS:
            for gap in ([], [["adv", EPS]], [["adv", 2.0]], [["q"]]):
                yield {"k": "api", "gen": gen, "ops": [list(x) for x in atom] + gap}
    for i in range(m):
        depth = rnd.choice([2, 2, 3, 4])
        ops = []
        for _ in range(depth):
            ops += [list(x) for x in rnd.choice(API_ATOMS)] + rnd.choice(
                [[], [["adv", EPS]], [["adv", 0.5]], [["adv", 2.0]], [["adv", 2.0 + EPS]],
                 [["q"]], [["adv", 301.0]]])
        yield {"k": "api", "gen": rnd.choice((4, 5)), "ops": ops, "seed": rnd.randrange(1 << 30)}
    n = 3000 if tier == "quick" else 400000
    for i in range(n):
        depth = rnd.choice([2, 2, 3, 3, 4, 5])
        els = [(rnd.choice(A), rnd.choice(SENDS), rnd.choice(GAPS)) for _ in range(depth)]
        pre = rnd.choice([[], [["q"]], [["net", "refuse", 0.0]]])
        yield {"gen": rnd.choice((4, 5)), "ops": pre + build(els)}


async def recovery_tail(gen, w, run, out):
    """Network behaves again; run the recovery oracle (DESIGN.md §C07)."""
    loop, net, log = w.loop, w.net, w.log
    maxlat = max([a[1] for a in net.script] + [0.0])
    inflight = [d["latency"] for _, _, k, d in log.events if k == "NET.connect_attempt"]
    maxlat = max([maxlat] + inflight[-2:])
    net.script.clear()
    net.default = ("accept", 0.0)
    for c in net.open_conns():
        c.transport.unstall()
        c.fail_write_at = None
    # the application's subscribers are quick again; one that is busy right now gets the time
    # it still needs (it is the application's time, not the client's)
    w.conn_delays.clear()
    w.msg_delays.clear()
    if getattr(w, "dropped_subs", None) in ("msg", "both"):
        # (the probe is observed through the message subscriber: it listens again)
        w.sock.subscribe_on_message_received(w._on_msg)
    now = loop.time()
    busy = max([t + d["delay"] - now for _, t, k, d in log.events
                if k in ("SUB.conn_slow", "SUB.msg_slow")] + [0.0])
    log.add("ORACLE.start")
    mark = log.mark()
    await asyncio.sleep(max(busy, 0.0) + 2.0 + maxlat + 1.0)
    await quiesce(loop)
    out["open_after_T"] = [c.id for c in net.open_conns()]
    conn_events = [d["connected"] for _, _, k, d in log.events if k == "SUB.conn"]
    out["last_conn_notification"] = conn_events[-1] if conn_events else None
    out["is_connected_flag"] = w.sock.is_connected
    if len(out["open_after_T"]) != 1:
        out["fail"] = "not-exactly-one-connection-after-recovery-time"
        return
    # ---- status probe, repeated while the stream may be desynchronised
    sent = 0
    pid = 20
    delivered = False
    base = None
    deadline_conns = 0
    while sent <= MAX_PROBE_BYTES + 4096:
        c = net.current()
        if c is None:
            # the client reset the connection (desynchronised stream): wait for it
            await asyncio.sleep(2.0 + 1.0)
            await quiesce(loop)
            c = net.current()
            deadline_conns += 1
            if c is None or deadline_conns > 40:
                out["fail"] = "no-connection-while-probing"
                return
        p = F.probe_frame(gen, pid)
        pid = 20 + (pid - 19) % 200
        n0 = len(w.msgs)
        if not c.transport.peer_data(p):
            await quiesce(loop)
            continue
        sent += len(p)
        await quiesce(loop)
        if len(w.msgs) > n0:
            got = describe(w.msgs[-1][1], w.msgs[-1][2])
            out["probe_delivery"] = got
            out["probe_sent"] = p
            delivered = True
            break
        # bulk up once it is clear the reader swallows probes (long announced length)
        if sent > 512 and c.open:
            chunk = b"".join(F.probe_frame(gen, 20 + (k % 200)) for k in range(64))
            if c.transport.peer_data(chunk):
                sent += len(chunk)
                await quiesce(loop)
    out["probe_bytes"] = sent
    if not delivered:
        out["fail"] = "status-probe-never-delivered"
        return
    # ---- probe command
    await quiesce(loop)
    c = net.current()
    if c is None:
        await asyncio.sleep(3.0)
        await quiesce(loop)
        c = net.current()
    opens = net.open_conns()
    if len(opens) != 1:
        out["fail"] = "not-exactly-one-connection-before-probe-command"
        return
    seq0 = log.mark()
    n_sends = len(run.sends)
    await S.execute(gen, [["send", "ac_ctrl", "idem", "inline"]], w, run,
                    counters={k: 9000 + len(run.sends) for k in S.KINDS})
    await quiesce(loop)
    rec = run.sends[-1]
    out["probe_cmd_outcome"] = rec["outcome"]
    by = S.frames_by_conn(gen, log)
    found = False
    for cid, b in by.items():
        for inf in b["frames"]:
            f = inf["frame"]
            if inf["seq"] >= seq0 and f.typ == rec["typ"] and bytes(f.data) == bytes(rec["data"]):
                found = cid
    out["probe_cmd_conn"] = found
    out["open_at_end"] = [c.id for c in net.open_conns()]
    out["done"] = True


def judge(gen, run, out):
    viol = []
    obs = {}
    log = run.log

    def v(mech, **d):
        viol.append({"mechanism": mech, "detail": d})

    if run.status != "ok":
        v("client-wedged-loop-" + run.status, status=run.status, oracle=out)
        return viol, obs
    # at no time more than one open connection
    open_now = set()
    worst = 0
    for seq, t, kind, d in log.events:
        if kind == "NET.open":
            open_now.add(d["conn"])
            if len(open_now) > 1:
                worst = max(worst, len(open_now))
        elif kind == "NET.close":
            open_now.discard(d["conn"])
    if worst > 1:
        v("two-connections-open", simultaneously=worst)
    # unhandled exceptions of background tasks
    for seq, t, kind, d in log.events:
        if kind == "LOG.error" and "Unhandled exception in background task" in d["msg"]:
            v("background-task-died", exc=d.get("exc"))
            break
    for seq, t, kind, d in log.events:
        if kind == "LOOP.unhandled":
            if "never retrieved" in (d.get("message") or "") and "subscriber fails" in (
                    d.get("exc") or ""):
                # the harness's own failing subscriber, orphaned when close() cancelled the
                # task that was waiting for it: the application's exception, nobody's fault
                obs["orphaned_failing_subscriber_tasks"] = obs.get(
                    "orphaned_failing_subscriber_tasks", 0) + 1
                continue
            v("unhandled-exception-in-loop", message=d.get("message"), exc=d.get("exc"))
            break
    if "fail" in out:
        v(out["fail"], oracle={k: x for k, x in out.items() if k != "probe_sent"})
        return viol, obs
    if not out.get("done"):
        v("recovery-oracle-did-not-finish", oracle=out)
        return viol, obs
    if getattr(run.world, "dropped_subs", None) in ("conn", "both"):
        obs["sockets_without_a_connection_subscriber"] = 1
    elif out["last_conn_notification"] is not True and not out.get("reconnected_during_probe"):
        # the notification must say connected once recovered
        conn_events = [d["connected"] for _, _, k, d in log.events if k == "SUB.conn"]
        if not conn_events or conn_events[-1] is not True:
            v("last-connection-notification-not-connected", oracle=out)
    if out["probe_delivery"] != baseline_of(gen, out["probe_sent"]):
        v("status-probe-delivered-wrongly", got=out["probe_delivery"])
    else:
        obs["probe_status_delivered"] = 1
    if out["probe_cmd_outcome"] != "ok":
        v("probe-command-send-raised", outcome=out["probe_cmd_outcome"])
    elif not out["probe_cmd_conn"]:
        v("probe-command-not-written")
    elif [out["probe_cmd_conn"]] != out["open_at_end"]:
        v("probe-command-written-to-wrong-connection", conn=out["probe_cmd_conn"],
          open=out["open_at_end"])
    else:
        obs["probe_cmd_written"] = 1
    # every other connection ever opened has been closed
    opened = [d["conn"] for _, _, k, d in log.events if k == "NET.open"]
    closed = {d["conn"] for _, _, k, d in log.events if k == "NET.close"}
    leaked = [c for c in opened if c not in closed and c not in out["open_at_end"]]
    if leaked or len(out["open_at_end"]) != 1:
        v("abandoned-connection-not-closed", leaked=leaked, open=out["open_at_end"])
    obs["recovered"] = 1
    obs["resets_seen"] = max(0, len(opened) - 1)
    if out.get("probe_bytes", 0) > 1024:
        obs["desynchronised_stream_needed_many_probes"] = 1
    start = next((seq for seq, _, k, _ in log.events if k == "ORACLE.start"), len(log.events))
    eff = sum(1 for seq, _, k, d in log.events[:start]
              if k in ("NET.peer_fin", "NET.peer_rst", "NET.deliver", "LOG.error")
              or (k == "NET.write" and d.get("fault"))
              or (k == "NET.connect_attempt" and d["outcome"] != "accept"))
    obs["fault_atoms_effective"] = 1 if eff else 0
    return viol, obs


_BASE = {}


def baseline_of(gen, raw):
    return _BASE.setdefault((gen, bytes(raw)), None) or _BASE.__setitem__(
        (gen, bytes(raw)), baseline_delivery(gen, raw)) or _BASE[(gen, bytes(raw))]


def run_fidelity(case):
    """SimNet vs real loopback TCP (thorough tier).  A mismatch that persists over three
    attempts means the simulated network cannot be trusted: raised as a harness error, which
    the runner reports as INCONCLUSIVE (never as a violation of pyairtouch)."""
    from .. import fidelity
    last = None
    for attempt in range(3):
        try:
            ok, sim, real = fidelity.cross_check(case["scenario"])
        except (TimeoutError, OSError) as e:   # loaded machine / port trouble: try again
            last = repr(e)
            continue
        if ok:
            return {"violations": [], "evals": 1, "decided": 1,
                    "obs": {"fidelity_scenarios_agree": 1},
                    "sample": {"fidelity": case["scenario"], "client_visible": sim}}
        last = {"sim": sim, "real": real}
    raise RuntimeError(f"SimNet fidelity mismatch in scenario {case['scenario']}: {last}")


def run_api(case):
    """API-level fault script + recovery oracle (status change reflected by the getters, a
    public command written, single connection)."""
    import pyairtouch.api as api
    from .. import apiworld as AW
    from .. import console as C
    gen = case["gen"]
    out = {}
    viol, obs = [], {}

    async def main(loop, net, log):
        w = AW.ApiWorld(gen, loop, net, log, C.default_installation(gen, 1, (2,)))
        if await w.init() is not True:
            out["init"] = False
            return
        await quiesce(loop)
        ac = w.ac
        zone = w.zone(0)
        raising = H.Sub(log, "raising", raises=True)

        async def cmd(name):
            try:
                if name == "ac_on":
                    await ac.set_power(api.AcPowerControl.TURN_ON)
                elif name == "ac_toggle":
                    await ac.set_power(api.AcPowerControl.TOGGLE)
                elif name == "zone_damper":
                    await zone.set_damper_percentage(40)
                elif name == "zone_setpoint_300":
                    await zone.set_target_temperature(300)
                elif name == "zone_setpoint_nan":
                    await zone.set_target_temperature(float("nan"))
                elif name == "zone_setpoint_inf":
                    await zone.set_target_temperature(float("inf"))
                elif name == "ac_setpoint_inf":
                    await ac.set_target_temperature(float("-inf"))
                elif name == "zone_setpoint_huge":
                    await zone.set_target_temperature(1e300)
                elif name == "timer_huge":
                    import datetime
                    await ac.set_quick_timer(api.AcTimerType.OFF_TIMER,
                                             datetime.timedelta(days=400000))
                elif name == "zone_damper_float":
                    await zone.set_damper_percentage(40.5)
            except (ValueError, ArithmeticError, TypeError, psock_errors) as e:
                log.add("API.raise", name=name, exc=repr(e))

        def bump():
            st = w.inst["acs"][0]["status"]
            if gen == 4:
                st["set_point"] = 17 + (st["set_point"] - 16) % 12
            else:
                st["sp_raw"] = 70 + (st["sp_raw"] - 60) % 120

        for op in expand(gen, case["ops"]):
            o = op[0]
            c = net.current()
            if o == "net":
                net.script.append(tuple(op[1:]))
            elif o == "adv":
                await asyncio.sleep(op[1])
            elif o == "q":
                await quiesce(loop)
            elif o == "cmd":
                await cmd(op[1])
            elif o == "sub_raise":
                ac.subscribe(raising)
                zone.subscribe(raising)
            elif o == "mute":
                w.console.knobs.answer_heartbeat = lambda n, t: None
                log.add("SCRIPT.console_mute")
            elif c is None:
                continue
            elif o == "fin":
                c.transport.peer_eof()
            elif o == "rst":
                c.transport.peer_reset()
            elif o == "data":
                c.transport.peer_data(bytes.fromhex(op[1]))
            elif o == "wfail":
                c.fail_write_at = c.nwrites + op[1]
            elif o == "status_change":
                bump()
                w.console.send(c, w.console.frame_ac_status())
        # ---- network behaves again
        maxlat = max([a[1] for a in net.script] + [d["latency"] for _, _, k, d in log.events
                                                   if k == "NET.connect_attempt"][-2:] + [0.0])
        net.script.clear()
        net.default = ("accept", 0.0)
        w.console.knobs.answer_heartbeat = None
        for c in net.open_conns():
            c.fail_write_at = None
        log.add("ORACLE.start")
        await asyncio.sleep(2.0 + maxlat + 1.0)
        await quiesce(loop)
        out["open_after_T"] = [c.id for c in net.open_conns()]
        out["initialised"] = w.at.initialised
        if len(out["open_after_T"]) != 1:
            out["fail"] = "not-exactly-one-connection-after-recovery-time"
            return
        # status probe through the model: a changed set-point must show in the getter
        sent = 0
        ok = False
        for attempt in range(4000):
            c = net.current()
            if c is None:
                await asyncio.sleep(3.0)
                await quiesce(loop)
                c = net.current()
                if c is None:
                    out["fail"] = "no-connection-while-probing"
                    return
            bump()
            raw = w.console.frame_ac_status()
            st = w.inst["acs"][0]["status"]
            want = float(st["set_point"]) if gen == 4 else (st["sp_raw"] + 100) / 10
            c.transport.peer_data(raw)
            sent += len(raw)
            await quiesce(loop)
            try:
                got = w.at.air_conditioners[0].target_temperature
            except Exception as e:
                got = repr(e)
            if isinstance(got, (int, float)) and abs(got - want) < 1e-9:
                ok = True
                break
            if sent > MAX_PROBE_BYTES + 4096:
                break
        out["probe_bytes"] = sent
        if not ok:
            out["fail"] = "status-probe-never-delivered"
            return
        await quiesce(loop)
        n0 = len(w.console.frames)
        r = await H.probe(log, "set_fan_speed", w.at.air_conditioners[0].set_fan_speed(
            api.AcFanSpeed.LOW))
        await quiesce(loop)
        out["cmd_exc"] = repr(r) if isinstance(r, Exception) else None
        out["cmd_frames"] = [(c_, cmd_["kind"]) for (t, c_, f, cmd_) in w.console.frames[n0:]
                             if cmd_["kind"] == "ac_control"]
        out["open_at_end"] = [c.id for c in net.open_conns()]
        out["done"] = True
        await w.at.shutdown()

    import pyairtouch.comms.socket as ps
    psock_errors = ps.QueueOverflowError
    _, log, st = H.run(main)

    def v(mech, **d):
        viol.append({"mechanism": mech, "detail": dict(d, ops=case["ops"], gen=gen, level="api"),
                     "log": H.log_slice(log, 45)})

    if st != "ok":
        v("client-wedged-loop-quiescent", status=st)
        return viol, obs
    if out.get("init") is False:
        return viol, obs
    open_now, worst = set(), 0
    for seq, t, kind, d in log.events:
        if kind == "NET.open":
            open_now.add(d["conn"])
            worst = max(worst, len(open_now))
        elif kind == "NET.close":
            open_now.discard(d["conn"])
    if worst > 1:
        v("two-connections-open", simultaneously=worst)
    for seq, t, kind, d in log.events:
        if kind == "LOG.error" and "Unhandled exception in background task" in d["msg"]:
            v("background-task-died", exc=d.get("exc"))
            break
    if any(k == "LOOP.unhandled" for _, _, k, _ in log.events):
        v("unhandled-exception-in-loop",
          event=H.jsonable([e for e in log.events if e[2] == "LOOP.unhandled"][:1]))
    if "fail" in out:
        v(out["fail"], oracle=out)
        return viol, obs
    if not out.get("done"):
        v("recovery-oracle-did-not-finish", oracle=out)
        return viol, obs
    if not out["initialised"]:
        v("client-no-longer-initialised-after-faults")
    obs["probe_status_delivered"] = 1
    if out["cmd_exc"]:
        v("probe-command-send-raised", outcome=out["cmd_exc"])
    elif len(out["cmd_frames"]) != 1 or [out["cmd_frames"][0][0]] != out["open_at_end"]:
        v("probe-command-not-written", frames=out["cmd_frames"], open=out["open_at_end"])
    else:
        obs["probe_cmd_written"] = 1
    opened = [d["conn"] for _, _, k, d in log.events if k == "NET.open"]
    closed = {d["conn"] for _, _, k, d in log.events if k == "NET.close"}
    leaked = [c for c in opened if c not in closed and c not in out["open_at_end"]]
    if leaked or len(out["open_at_end"]) != 1:
        v("abandoned-connection-not-closed", leaked=leaked, open=out["open_at_end"])
    obs["recovered"] = 1
    obs["api_level_recoveries"] = 1
    obs["resets_seen"] = max(0, len(opened) - 1)
    obs["fault_atoms_effective"] = 1
    return viol, obs


def run_case(case):
    if case.get("k") == "fidelity":
        return run_fidelity(case)
    if case.get("k") == "api":
        viol, obs = run_api(case)
        return {"violations": H.cap(viol), "evals": 1, "decided": obs.get("recovered", 0),
                "obs": obs, "sample": {"gen": case["gen"], "level": "api", "ops": case["ops"]}}
    gen = case["gen"]
    ops = expand(gen, case["ops"])
    out = {}

    async def tail(w, run):
        await recovery_tail(gen, w, run, out)

    run = S.run_script(gen, ops, tail=tail,
                       host="airtouch.lan" if any(o[0] == "dns_move" for o in ops) else None)
    viol, obs = judge(gen, run, out)
    for x in viol:
        x["log"] = H.log_slice(run.log, 45)
        x["detail"]["ops"] = case["ops"]
    return {"violations": H.cap(viol), "evals": 1, "decided": obs.get("recovered", 0),
            "obs": obs, "sample": {"gen": gen, "ops": case["ops"]}}
