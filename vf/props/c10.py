"""C10 — the object model always shows the console's latest report."""

from __future__ import annotations

import itertools
import random

from .. import apiworld as AW
from ..sockworld import quiesce
from .. import console as C
from .. import harness as H
from .. import refmodel as RM
from .. import refproto as R

ID = "C10"
LEVEL = "exploration"
EXHAUSTIVE = {"quick": False, "thorough": False}
RULE = ("After a real init() against the simulated console, sequences of 1..30 status, timer, "
        "error-text and version frames (any entity order, repeats, partial frames, unknown "
        "entity ids) over the cross product of *defined* power/mode/fan/flag/timer values "
        "(quick: every value of every field at least once + random combinations; thorough: the "
        "full AT4 and AT5 AC-status cross product) are injected; after each frame every public "
        "getter of the AirTouch, each AC and each zone is compared with an executable reference "
        "model fed the same bytes through the reference codec. Non-trivial = a frame changed "
        "the model and all getters were compared; distinct = distinct injected frames.")
ASSUMPTIONS = ["model = contract in pyairtouch/api.py + vendor PDFs (refmodel.py)",
               "not-available sentinels for AC temperature/set-point are not generated here "
               "(recorded under C05 as known findings)",
               "spill+bypass both set, battery bit of a sensorless zone, error text before the "
               "first answer of an error episode: undecided"]
REQUIRED_OBS = ["one_slow_subscriber_sessions", "slow_subscriber_sessions", "frames_compared", "ac_values_seen", "zone_values_seen", "timer_frames",
                "error_episodes", "version_frames", "ia_fan_values",
                "frames_for_a_unit_installed_between_two_lives"]
SOAK = True   # also judged by the whole-run monitors of the soak sessions (vf/soak.py)
BUDGET = {"quick": 100, "thorough": 1500}


def installation(gen, rnd):
    n_acs = rnd.choice([1, 1, 2, 3, 4])
    zp = [rnd.randint(0, 4) for _ in range(n_acs)]
    if gen == 4 and sum(zp) == 0:
        zp[0] = 1  # AT4 without any group: handshake behaviour is C09's subject
    inst = C.default_installation(gen, n_acs, tuple(zp), new_format=rnd.random() < 0.7)
    if rnd.random() < 0.3:
        inst["names_key"] = rnd.choice([3, 5, 7, 11])    # names listed in another order
    if rnd.random() < 0.3 and sum(zp) + 2 * n_acs <= 16:
        # zone numbers with unused numbers in front of an air-conditioner's zones
        C.spread_zones(inst, [rnd.randint(0, 2) for _ in range(n_acs)])
    if rnd.random() < 0.4:
        # AC numbers with gaps / not starting at 0
        C.renumber_acs(inst, sorted(rnd.sample(range(4 if gen == 4 else 8), n_acs)))
    for a in inst["acs"]:
        ab = a["ability"]
        if rnd.random() < 0.3:
            # leftovers behind the terminator of the name field (not even valid UTF-8)
            ab["name_tail"] = rnd.choice([b"\xff", b"old name", b"\xc3"])
        if gen == 4 and ab.get("groups") is not None and rnd.random() < 0.5:
            # a console that sends the group bitmap: its legacy start/count bytes are leftovers
            # (the library documents them as unreliable) - also for an AC that owns no group
            ab["start"], ab["count"] = rnd.randrange(16), rnd.randint(0, 4)
        ab["modes"] = {k: rnd.random() < 0.8 for k in ab["modes"]}
        ab["fans"] = {k: rnd.random() < 0.8 for k in ab["fans"]}
        if gen == 4:
            ab["min_sp"], ab["max_sp"] = rnd.randint(14, 18), rnd.randint(28, 32)
        else:
            ab["min_cool"], ab["max_cool"] = rnd.randint(14, 18), rnd.randint(28, 31)
            ab["min_heat"], ab["max_heat"] = rnd.randint(15, 20), rnd.randint(29, 33)
        # what the console reports during the handshake is as varied as what it reports later:
        # an AC may already be in an error episode (with or without a text) when the client
        # initialises
        if rnd.random() < 0.6:
            a["status"] = rand_ac(gen, rnd, a["status"]["ac"])
            if a["status"]["error"]:
                inst["errors"][a["status"]["ac"]] = rnd.choice(["E5 compressor", "ER: 12", None])
    for z in inst["zones"]:
        if rnd.random() < 0.6:
            z["status"] = rand_zone(gen, rnd, z["id"])
        if gen == 4 and rnd.random() < 0.3:
            z["name_tail"] = rnd.choice([b"\xff", b"old", b"\xe2\x82"])
    return inst


AT4_AC = dict(power=["off", "on"], mode_code=[0, 1, 2, 3, 4, 8, 9], fan_code=list(range(7)),
              spill=[False, True], timer=[False, True])
AT5_AC = dict(power_code=[0, 1, 2, 3, 5], mode_code=[0, 1, 2, 3, 4, 8, 9],
              fan_code=[0, 1, 2, 3, 4, 5, 6, 9, 10, 11, 12, 13, 14],
              flags=[(t, b, s) for t in (False, True) for b in (False, True)
                     for s in (False, True)], timer=[False, True])


def _ac_temp(rnd):
    # mostly defined temperatures; sometimes the out-of-range raw values (above 150 degC, all
    # ones) - what they read as is C05's subject, but repeats of them are still repeats
    return rnd.choice([rnd.randint(0, 2000)] * 5 + [2047, 2001, rnd.randint(2001, 2047)])


def rand_ac(gen, rnd, ac, combo=None):
    if gen == 4:
        c = combo or {k: rnd.choice(v) for k, v in AT4_AC.items()}
        return {"ac": ac, "power": c["power"], "mode_code": c["mode_code"],
                "fan_code": c["fan_code"], "spill": c["spill"], "timer": c["timer"],
                "set_point": rnd.randint(0, 63), "temp_raw11": _ac_temp(rnd),
                "error": rnd.choice([0, 0, 0, 7, 0x1234])}
    c = combo or {k: rnd.choice(v) for k, v in AT5_AC.items()}
    t, b, s = c["flags"]
    return {"ac": ac, "power_code": c["power_code"], "mode_code": c["mode_code"],
            "fan_code": c["fan_code"], "sp_raw": rnd.randint(0, 250), "turbo": t, "bypass": b,
            "spill": s, "timer": c["timer"], "temp_raw11": _ac_temp(rnd),
            "error": rnd.choice([0, 0, 0, 7, 0x1234])}


def rand_zone(gen, rnd, z):
    base = {"power": rnd.choice(["off", "on", "turbo"]),
            "control_method": rnd.choice(["temperature", "damper"]),
            "damper": rnd.randint(0, 100), "sensor": rnd.random() < 0.7,
            "spill": rnd.random() < 0.5, "battery_low": rnd.random() < 0.3,
            "temp_raw11": rnd.choice([rnd.randint(0, 2000), 2047, 2001, 500])}
    if gen == 4:
        base.update(group=z, turbo_support=rnd.random() < 0.5, set_point_raw=rnd.randint(0, 63))
        if rnd.random() < 0.15:
            base["temp_raw11"] = None
    else:
        base.update(zone=z, sp_raw=rnd.choice([rnd.randint(0, 250), 0xFF]))
    return base


def rtimer(rnd):
    t = {"disabled": rnd.random() < 0.4, "hour": rnd.randint(0, 23), "minute": rnd.randint(0, 59)}
    if t["disabled"] and rnd.random() < 0.5:
        # the time bits of a disabled timer are to be ignored: they need not be a time
        t["raw"] = bytes([0x80 | rnd.choice([0x7F, 0x18, 0x1F, rnd.randint(0, 0x7F)]),
                          rnd.choice([0xFF, 0x3C, 0x3F, rnd.randint(0, 255)])])
    return t


def cases(tier, seed):
    rnd = random.Random(f"C10/{tier}/{seed}")
    # anchor: D7 (AT5 active fan for INTELLIGENT_AUTO_TURBO)
    yield {"gen": 5, "seed": 1, "n": 1, "combos": [{"power_code": 1, "mode_code": 4,
                                                    "fan_code": 14,
                                                    "flags": (False, False, False),
                                                    "timer": False}]}
    # every defined value of every field at least once
    for gen, dom in ((4, AT4_AC), (5, AT5_AC)):
        combos = []
        for k, vals in dom.items():
            for v in vals:
                c = {kk: random.Random(f"{k}{v}").choice(vv) for kk, vv in dom.items()}
                c[k] = v
                combos.append(c)
        for i in range(0, len(combos), 10):
            yield {"gen": gen, "seed": rnd.randrange(1 << 30), "combos": combos[i:i + 10],
                   "n": 10}
    if tier == "thorough":
        for gen, dom in ((4, AT4_AC), (5, AT5_AC)):
            keys = list(dom)
            allc = [dict(zip(keys, vals)) for vals in itertools.product(*[dom[k] for k in keys])]
            for i in range(0, len(allc), 28):
                yield {"gen": gen, "seed": rnd.randrange(1 << 30), "combos": allc[i:i + 28],
                       "n": 28}
    n = 200 if tier == "quick" else 60000
    for i in range(n):
        yield {"gen": rnd.choice((4, 5)), "seed": rnd.randrange(1 << 30),
               "n": rnd.randint(1, 30), "combos": None}
    # the same object initialised a second time; the console then repeats, byte for byte, what
    # it had reported last in the first life - although it said something else in between
    for i in range(12 if tier == "quick" else 1500):
        yield {"k": "reinit", "gen": (4, 5)[i % 2], "seed": rnd.randrange(1 << 30),
               "kinds": rnd.choice([["zone"], ["ac"], ["timer"], ["zone", "ac", "timer"],
                                    ["error", "version", "zone"]])}
    for i in range(4 if tier == "quick" else 200):
        yield {"k": "grow", "gen": (4, 5)[i % 2], "seed": rnd.randrange(1 << 30)}
    for i in range(6 if tier == "quick" else 600):
        yield {"k": "dropref", "gen": (4, 5)[i % 2], "seed": rnd.randrange(1 << 30),
               "n": rnd.randint(3, 12)}
    for i in range(24 if tier == "quick" else 3000):
        yield {"k": "slow", "gen": rnd.choice((4, 5)), "seed": rnd.randrange(1 << 30),
               "n": rnd.randint(2, 6), "delay": rnd.choice([0.5, 6.5, 12.0]),
               "gap": rnd.choice([0.0, 0.3, 2.0]), "one_slow": i % 2 == 0}


def make_frame(gen, rnd, w, combo, obs, kinds=None, big=False):
    """One console->client frame concerning some entities; mutates the console state so
    that error-text requests are answered consistently."""
    con = w.console
    inst = w.inst
    ac_ids = [a["status"]["ac"] for a in inst["acs"]]
    zone_ids = [z["id"] for z in inst["zones"]]
    kind = "ac" if combo is not None else rnd.choice(
        kinds or ["ac", "ac", "zone", "zone", "timer", "error", "version", "unknown"])
    if kind == "zone" and not zone_ids:
        kind = "ac" if kinds is None else "timer"
    if kind == "ac":
        ids = [rnd.choice(ac_ids)] if combo is not None else rnd.sample(
            ac_ids + [rnd.choice([7, 3] if gen == 4 else [15, 9])],
            rnd.randint(1, len(ac_ids) + 1))
        recs = []
        for a in ids:
            st = rand_ac(gen, rnd, a, combo)
            ac = con._ac(a)
            if ac is not None:
                ac["status"] = st
                if st["error"]:
                    # (None: the console has no text for this code - the empty answer)
                    inst["errors"][a] = rnd.choice(["ER: FFFE", "E7", "Fault 12", None])
                    obs["error_episodes"] = obs.get("error_episodes", 0) + 1
                else:
                    inst["errors"].pop(a, None)
            recs.append(st)
        obs["ac_values_seen"] = obs.get("ac_values_seen", 0) + len(recs)
        if gen == 5 and any(9 <= r["fan_code"] <= 14 for r in recs):
            obs["ia_fan_values"] = obs.get("ia_fan_values", 0) + 1
        if gen == 4:
            obs["ia_fan_values"] = obs.get("ia_fan_values", 0) + 1  # n/a for AT4
            return con.f_std(0x2D, b"".join(R.b4_ac_status_record(r) for r in recs))
        st = rnd.choice([8, 10, 10, 12])
        return con.f_std(0xC0, R.c0(0x23, st, [R.b5_ac_status_record(r, st) for r in recs]))
    if kind == "zone":
        ids = rnd.sample(zone_ids + [rnd.choice([14, 15])], rnd.randint(1, len(zone_ids) + 1))
        if big:
            # one long frame (well over a kilobyte of records): the zones reported over and
            # over, the last record of each counts
            ids = [rnd.choice(zone_ids) for _ in range(rnd.randint(180, 260))]
            obs["frames_longer_than_1k"] = obs.get("frames_longer_than_1k", 0) + 1
        recs = [rand_zone(gen, rnd, z) for z in ids]
        for rec in recs:   # the console's own state follows what it reports
            for z in inst["zones"]:
                if z["id"] == rec.get("group", rec.get("zone")):
                    z["status"] = rec
        obs["zone_values_seen"] = obs.get("zone_values_seen", 0) + len(recs)
        if gen == 4:
            return con.f_std(0x2B, b"".join(R.b4_group_status_record(r) for r in recs))
        st = rnd.choice([8, 8, 9, 12])
        return con.f_std(0xC0, R.c0(0x21, st, [R.b5_zone_status_record(r, st) for r in recs]))
    if kind == "timer":
        obs["timer_frames"] = obs.get("timer_frames", 0) + 1
        if gen == 4:
            data = bytearray(32)
            for a in range(4):
                data[8 * a:8 * a + 4] = R.timer_bytes(rtimer(rnd)) + R.timer_bytes(rtimer(rnd))
            return con.f_std(0x37, bytes(data))
        ids = rnd.sample(ac_ids + [12], rnd.randint(1, len(ac_ids) + 1))
        st = rnd.choice([9, 9, 10, 12])
        return con.f_std(0xC0, R.c0(0x33, st, [
            bytes([a]) + R.timer_bytes(rtimer(rnd)) + R.timer_bytes(rtimer(rnd)) + b"\0" * 4
            + rnd.randbytes(st - 9) for a in ids]))
    if kind == "error":
        a = rnd.choice(ac_ids + [9])
        return con.f_ext(0xFF10, R.error_body(a, rnd.choice([None, "ER: 01", "Zx", "Fault  ", " E 7 "])))
    if kind == "version":
        obs["version_frames"] = obs.get("version_frames", 0) + 1
        sep = "|" if gen == 4 else ","
        return con.f_ext(0xFF30, R.version_body(rnd.random() < 0.5, rnd.choice(
            [["1.2.3"], ["1.2.4", "1.2.3"], ["9.9"],
             # the same strings in another order / another number of times
             ["1.2.3", "1.2.4"], ["1.2.3", "1.2.3"], ["1.2.4", "1.2.3", "1.2.4"]]), sep))
    return con.frame_unknown(rnd.choice([0x77, 0x01]), rnd.randbytes(rnd.randint(0, 9)))


def one_field_frame(gen, rnd, w, obs):
    """A status frame for ONE entity that differs from the console's current record of that
    entity in exactly one field (a change confined to one attribute must still be noticed)."""
    con = w.console
    inst = w.inst
    obs["single_field_changes"] = obs.get("single_field_changes", 0) + 1
    if inst["zones"] and rnd.random() < 0.5:
        z = rnd.choice(inst["zones"])
        st = dict(z["status"])
        f = rnd.choice([k for k in st if k not in ("group", "zone")])
        v = st[f]
        if isinstance(v, bool):
            st[f] = not v
        elif f == "power":
            st[f] = rnd.choice([x for x in ("off", "on", "turbo") if x != v])
        elif f == "control_method":
            st[f] = "damper" if v == "temperature" else "temperature"
        elif f == "damper":
            st[f] = (v + 1 + rnd.randrange(50)) % 101
        elif f == "set_point_raw":
            st[f] = (v + 1 + rnd.randrange(20)) % 64
        elif f == "sp_raw":
            st[f] = (v + 1 + rnd.randrange(100)) % 251 if v != 0xFF else 120
        elif f == "temp_raw11":
            st[f] = ((v or 0) + 1 + rnd.randrange(300)) % 2001
        z["status"] = st
        if gen == 4:
            return con.f_std(0x2B, R.b4_group_status_record(st))
        return con.f_std(0xC0, R.c0(0x21, 8, [R.b5_zone_status_record(st)]))
    a = rnd.choice(inst["acs"])
    st = dict(a["status"])
    f = rnd.choice([k for k in st if k not in ("ac", "error")])
    v = st[f]
    if isinstance(v, bool):
        st[f] = not v
    elif f == "power":
        st[f] = "on" if v == "off" else "off"
    elif f == "power_code":
        st[f] = rnd.choice([x for x in (0, 1, 2, 3, 5) if x != v])
    elif f == "mode_code":
        st[f] = rnd.choice([x for x in (0, 1, 2, 3, 4, 8, 9) if x != v])
    elif f == "fan_code":
        dom = list(range(7)) + ([9, 10, 11, 12, 13, 14] if gen == 5 else [])
        st[f] = rnd.choice([x for x in dom if x != v])
    elif f == "set_point":
        st[f] = (v + 1 + rnd.randrange(20)) % 64
    elif f == "sp_raw":
        st[f] = (v + 1 + rnd.randrange(100)) % 251
    elif f == "temp_raw11":
        st[f] = (v + 1 + rnd.randrange(300)) % 2001
    if gen == 5 and st["spill"] and st["bypass"]:
        st["bypass"] = False
    a["status"] = st
    if gen == 4:
        return con.f_std(0x2D, R.b4_ac_status_record(st))
    return con.f_std(0xC0, R.c0(0x23, 10, [R.b5_ac_status_record(st, 10)]))


def run_slow(case):
    """Application subscribers that take several seconds per call while the console keeps
    reporting: once everything has been handled, the model shows the LATEST report."""
    gen = case["gen"]
    rnd = random.Random(case["seed"])
    viol, obs = [], {}

    async def main(loop, net, log):
        import asyncio
        w = AW.ModelWorld(gen, loop, net, log, installation(gen, rnd))
        if await w.init_and_sync() is not True:
            viol.append({"mechanism": "init-failed-on-plain-console", "detail": {}})
            return
        subs = []
        slow = case["delay"]
        t_init = loop.time()
        for ac in w.at.air_conditioners:
            for attach in (ac.subscribe, ac.subscribe_ac_state):
                s = H.Sub(log, f"slow-ac{ac.ac_id}", hashv=rnd.getrandbits(20))
                s.delay = slow
                attach(s)
                subs.append(s)
            for z in ac.zones:
                s = H.Sub(log, f"slow-zone{z.zone_id}", hashv=rnd.getrandbits(20))
                s.delay = slow
                z.subscribe(s)
                subs.append(s)
        frames = []
        if case.get("one_slow"):
            # only the subscriber of the FIRST entity of the frames is slow; frame A changes
            # every entity, frame B (while that subscriber is still busy) repeats the first
            # entity and changes the others again
            for s in subs:
                s.delay = 0.0
            zones = w.inst["zones"]
            use_zones = len(zones) >= 2
            ents = zones if use_zones else w.inst["acs"]
            if len(ents) >= 2:
                first = ents[0]
                fid = first["id"] if use_zones else first["status"]["ac"]
                for s in subs:
                    if s.name == (f"slow-zone{fid}" if use_zones else f"slow-ac{fid}"):
                        s.delay = slow
                for rnd_first in (True, False):
                    for e in ents:
                        if e is first and not rnd_first:
                            continue
                        if use_zones:
                            e["status"] = rand_zone(gen, rnd, e["id"])
                        else:
                            e["status"] = rand_ac(gen, rnd, e["status"]["ac"])
                            e["status"]["error"] = 0
                    c = w.conn()
                    raw = w.console.frame_zone_status() if use_zones else \
                        w.console.frame_ac_status()
                    frames.append(raw)
                    w.console.send(c, raw)
                    await asyncio.sleep(case["gap"])
                obs["one_slow_subscriber_sessions"] = 1
        for _ in range(case["n"] if not case.get("one_slow") else 0):
            c = w.conn()
            if c is None:
                break
            raw = make_frame(gen, rnd, w, None, obs)
            frames.append(raw)
            w.console.send(c, raw)
            await asyncio.sleep(case["gap"])
        # let every callback finish (each frame can cost several delays in a row)
        await asyncio.sleep(slow * (len(subs) + 2) * (case["n"] + 1) + 30.0)
        await quiesce(loop)
        resets = [t for _, t, k, d in log.events if k == "NET.close" and not d["fault"]]
        if resets and resets[0] - t_init >= 329.0:
            # all of them busy one after the other for so long that the (answered) heartbeat
            # of t+300 s was still queued behind them 30 s later: the link is reset as
            # documented and what was unread on it is lost - outside what is judged here
            obs["undecided_busy_beyond_the_heartbeat_deadline"] = 1
            await w.at.shutdown()
            return
        w.feed()
        dd = RM.diff(w.model.expected(), H.snapshot(w.at))
        obs["slow_subscriber_sessions"] = 1
        obs["frames_compared"] = len(frames)
        for path, ev, gv in dd[:3]:
            viol.append({"mechanism": "getter-differs-from-latest-report-with-slow-subscribers:"
                         + path.split(".")[-1],
                         "detail": {"path": path, "expected": ev, "got": gv,
                                    "frames": frames[-3:], "delay": slow}})
        if w.conn() is None or len(net.conns) != 1:
            viol.append({"mechanism": "connection-lost-while-subscribers-were-busy",
                         "detail": {"connections": len(net.conns)}})
        await w.at.shutdown()

    _, log, st = H.run(main)
    if st != "ok":
        viol.append({"mechanism": "model-world-hang", "detail": {"status": st}})
    return {"violations": H.cap(viol), "evals": case["n"], "decided": obs.get("frames_compared", 0),
            "distinct": obs.get("frames_compared", 0), "obs": obs,
            "sample": {"gen": gen, "slow": case["delay"]}}


def run_reinit(case):
    import copy
    gen = case["gen"]
    rnd = random.Random(case["seed"])
    viol, obs = [], {}

    async def main(loop, net, log):
        w = AW.ModelWorld(gen, loop, net, log, installation(gen, rnd))
        if await w.init_and_sync() is not True:
            viol.append({"mechanism": "init-failed-on-plain-console", "detail": {}})
            return

        def compare(where, frame=None):
            w.feed()
            dd = RM.diff(w.model.expected(), H.snapshot(w.at))
            for path, ev, gv in dd[:3]:
                viol.append({"mechanism": "getter-differs-from-latest-report-after-reinit:"
                             + path.split(".")[-1],
                             "detail": {"where": where, "path": path, "expected": ev, "got": gv,
                                        "frame": frame, "kinds": case["kinds"]}})
            return not dd

        frames = []
        for kind in case["kinds"]:
            raw = make_frame(gen, rnd, w, None, obs, kinds=[kind])
            frames.append(raw)
            await w.inject(raw)
        if not compare("first life"):
            return
        keep = copy.deepcopy({k: w.inst[k] for k in ("acs", "zones", "errors")})
        await w.at.shutdown()
        await quiesce(loop)
        # meanwhile the console's state is another one: the second handshake reports that
        for a in w.inst["acs"]:
            a["status"] = rand_ac(gen, rnd, a["status"]["ac"])
            a["status"]["error"] = 0
        w.inst["errors"].clear()
        for z in w.inst["zones"]:
            z["status"] = rand_zone(gen, rnd, z["id"])
        w.model = RM.RefModel(gen)
        w._bufs.clear()
        w.feed()
        w.model = RM.RefModel(gen)
        if await w.init_and_sync() is not True:
            viol.append({"mechanism": "reinit-failed-on-plain-console", "detail": {}})
            return
        if not compare("after the second init"):
            return
        for k, val in keep.items():
            w.inst[k] = val
        w.console.inst = w.inst
        for raw in frames:
            await w.inject(raw)
            obs["frames_repeated_after_reinit"] = obs.get("frames_repeated_after_reinit", 0) + 1
            if not compare("frame of the first life repeated in the second", raw):
                break
        await w.at.shutdown()

    _, log, st = H.run(main)
    if st != "ok":
        viol.append({"mechanism": "model-world-hang", "detail": {"status": st}})
    n = obs.get("frames_repeated_after_reinit", 0)
    return {"violations": H.cap(viol), "evals": n, "decided": n, "distinct": n, "obs": obs,
            "sample": {"gen": gen, "kinds": case["kinds"]}}


def run_grow(case):
    """One object, two lives: in the first the console mentions an air-conditioner number the
    installation does not have (a timer slot, a status record); before the second life that
    unit has been installed. It is then an air-conditioner like any other."""
    gen = case["gen"]
    rnd = random.Random(case["seed"])
    viol, obs = [], {}

    async def main(loop, net, log):
        inst1 = C.default_installation(gen, 1, (2,))
        inst2 = C.default_installation(gen, 2, (2, 1))
        new_ac = inst2["acs"][1]["status"]["ac"]
        w = AW.ModelWorld(gen, loop, net, log, inst1)
        if await w.init_and_sync() is not True:
            viol.append({"mechanism": "init-failed-on-plain-console", "detail": {}})
            return

        def compare(where):
            w.feed()
            dd = RM.diff(w.model.expected(), H.snapshot(w.at))
            for path, ev, gv in dd[:3]:
                viol.append({"mechanism": "getter-differs-from-latest-report-after-reinit:"
                             + path.split(".")[-1],
                             "detail": {"where": where, "path": path, "expected": ev, "got": gv,
                                        "grown": True}})
            return not dd

        # first life: frames that also mention the unit that is not there yet
        con2 = C.SimConsole(net, inst2, C.Knobs(), host="unused")
        for tm in (True, False, True):
            inst2["timers"][new_ac] = {"on": C.timer(not tm, rnd.randint(0, 23), rnd.randint(0, 59)),
                                       "off": C.timer(tm, rnd.randint(0, 23), rnd.randint(0, 59))}
            await w.inject(con2.frame_timer_status())
            await w.inject(con2.frame_ac_status())
        if not compare("first life"):
            return
        await w.at.shutdown()
        await quiesce(loop)
        # the unit has been installed meanwhile
        inst2["timers"][new_ac] = {"on": C.timer(False, 7, 15), "off": C.timer(False, 22, 45)}
        w.inst = inst2
        w.console = C.SimConsole(net, inst2, C.Knobs())
        w.model = RM.RefModel(gen)
        w._bufs.clear()
        w.feed()
        w.model = RM.RefModel(gen)
        if await w.init_and_sync() is not True:
            viol.append({"mechanism": "reinit-failed-on-plain-console", "detail": {}})
            return
        if not compare("after the second init"):
            return
        for k in range(3):
            inst2["timers"][new_ac] = {"on": C.timer(k == 1, 5 + k, 50), "off": C.timer(False, 21, 30 + k)}
            await w.inject(w.console.frame_timer_status())
            obs["frames_for_a_unit_installed_between_two_lives"] = obs.get(
                "frames_for_a_unit_installed_between_two_lives", 0) + 1
            if not compare("timer status for the new unit"):
                break
        await w.at.shutdown()

    _, log, st = H.run(main)
    if st != "ok":
        viol.append({"mechanism": "model-world-hang", "detail": {"status": st}})
    n = obs.get("frames_for_a_unit_installed_between_two_lives", 0)
    return {"violations": H.cap(viol), "evals": n, "decided": n, "distinct": n, "obs": obs,
            "sample": {"gen": gen, "grow": True}}


def run_dropref(case):
    """The application keeps the air-conditioner and zone objects it was given, but not the
    AirTouch object itself (no shutdown): what it still holds keeps following the console."""
    import gc
    gen = case["gen"]
    rnd = random.Random(case["seed"])
    viol, obs = [], {}

    async def main(loop, net, log):
        w = AW.ModelWorld(gen, loop, net, log, installation(gen, rnd))
        if await w.init_and_sync() is not True:
            viol.append({"mechanism": "init-failed-on-plain-console", "detail": {}})
            return
        acs = list(w.at.air_conditioners)
        zones = {z.zone_id: z for a in acs for z in a.zones}
        w.at = None            # the harness' own reference
        gc.collect()
        for i in range(case["n"]):
            raw = make_frame(gen, rnd, w, None, obs, kinds=["ac", "zone", "timer"])
            c = w.conn()
            if c is None:
                viol.append({"mechanism": "connection-lost-after-the-airtouch-object-was-dropped",
                             "detail": {"frame_index": i}})
                return
            w.console.send(c, raw)
            await quiesce(loop)
            if i % 2:
                gc.collect()
            w.feed()
            exp = w.model.expected()
            snap = {"acs": {a.ac_id: H.snapshot_ac(a) for a in acs},
                    "zones": {zid: H.snapshot_zone(z) for zid, z in zones.items()},
                    "model": exp["model"]}
            for k in ("update_available", "console_versions"):
                if k in exp:
                    snap[k] = exp[k]
            dd = RM.diff(exp, snap)
            obs["frames_compared_without_the_airtouch_object"] = obs.get(
                "frames_compared_without_the_airtouch_object", 0) + 1
            for path, ev, gv in dd[:3]:
                viol.append({"mechanism": "getter-differs-from-latest-report-after-the-"
                             "airtouch-object-was-dropped:" + path.split(".")[-1],
                             "detail": {"path": path, "expected": ev, "got": gv, "frame": raw,
                                        "frame_index": i}})
            if dd:
                return

    _, log, st = H.run(main)
    if st != "ok":
        viol.append({"mechanism": "model-world-hang", "detail": {"status": st}})
    n = obs.get("frames_compared_without_the_airtouch_object", 0)
    return {"violations": H.cap(viol), "evals": n, "decided": n, "distinct": n, "obs": obs,
            "sample": {"gen": gen, "dropref": True}}


def run_case(case):
    if case.get("k") == "dropref":
        return run_dropref(case)
    if case.get("k") == "grow":
        return run_grow(case)
    if case.get("k") == "slow":
        return run_slow(case)
    if case.get("k") == "reinit":
        return run_reinit(case)
    gen = case["gen"]
    rnd = random.Random(case["seed"])
    viol = []
    obs = {}
    sample = {}

    async def main(loop, net, log):
        w = AW.ModelWorld(gen, loop, net, log, installation(gen, rnd))
        ok = await w.init_and_sync()
        if ok is not True:
            viol.append({"mechanism": "init-failed-on-plain-console", "detail": {"ret": ok}})
            return
        d0 = RM.diff(w.model.expected(), H.snapshot(w.at))
        if d0:
            viol.append({"mechanism": "model-wrong-after-init:" + d0[0][0].split(".")[-1],
                         "detail": {"diff": d0[:4], "inst": repr(w.inst)[:600]}})
            return
        for i in range(case["n"]):
            combo = case["combos"][i % len(case["combos"])] if case["combos"] else None
            if combo is None and rnd.random() < 0.25:
                raw = one_field_frame(gen, rnd, w, obs)
            elif combo is None and rnd.random() < 0.04 and w.inst["zones"]:
                raw = make_frame(gen, rnd, w, None, obs, kinds=["zone"], big=True)
            else:
                raw = make_frame(gen, rnd, w, combo, obs)
            if not await w.inject(raw):
                break
            ch = w.feed()
            snap = H.snapshot(w.at)
            dd = RM.diff(w.model.expected(), snap)
            obs["frames_compared"] = obs.get("frames_compared", 0) + 1
            if len(net.conns) != 1 and not dd:
                # the getters agree only because the client dropped the frame, reset the link
                # and asked again: the report itself was never read
                viol.append({"mechanism": "status-frame-dropped-and-link-reset:"
                             f"at{gen}", "detail": {"frame": raw, "frame_index": i,
                                                     "length": len(raw),
                                                     "connections": len(net.conns)}})
                break
            sample.setdefault("frame", raw)
            for path, ev, gv in dd[:3]:
                attr = path.split(".")[-1]
                raised = isinstance(gv, tuple) and gv and gv[0] == "RAISED"
                viol.append({
                    "mechanism": ("getter-raises-for-defined-value:" if raised else
                                  "getter-differs-from-latest-report:") + f"at{gen}.{attr}",
                    "detail": {"path": path, "expected": ev, "got": gv, "frame": raw,
                               "frame_index": i}})
            if dd:
                break
        bad = [e for e in log.events if e[2] in ("LOOP.unhandled",)]
        if bad:
            viol.append({"mechanism": "unhandled-exception-while-updating-model",
                         "detail": H.jsonable(bad[:2])})
        await w.at.shutdown()

    _, log, st = H.run(main)
    if st != "ok":
        viol.append({"mechanism": "model-world-hang", "detail": {"status": st}})
    return {"violations": H.cap(viol), "evals": case["n"],
            "decided": obs.get("frames_compared", 0), "distinct": obs.get("frames_compared", 0),
            "obs": obs, "sample": {"gen": gen, **sample}}
