"""C04 — commands on the wire mean what the vendor protocol says."""

from __future__ import annotations

import random

from .. import cmds as K
from .. import harness as H

ID = "C04"
LEVEL = "exploration"
EXHAUSTIVE = {"quick": False, "thorough": False}
RULE = ("Initialised clients against installations with AC numbers 0..3 (AT4) / any of 0..15 "
        "(AT5), zones 0..15 and sampled ability bitmaps (all-on, each single bit off, random); "
        "every public control call (AC power/mode/fan/set-point, zone power/set-point/damper, "
        "quick timers by duration 0..48 h and by time of day, clear, update check) with all enum "
        "arguments, temperatures on a 0.05 degC grid from min-3 to max+3, dampers 0..100; the "
        "frame(s) seen by the simulated console during the call are read by the independent "
        "command reader and compared with the intent (target, requested attribute = requested "
        "value, every other attribute keep, addresses, CRC). Non-trivial = an accepted call "
        "produced a frame that was judged; distinct = distinct (call, installation) pairs.")
ASSUMPTIONS = ["refproto command reader transcribed from the vendor PDFs ('other' codes = keep)",
               "quick timer / timer control layouts are undocumented: taken from the repo's "
               "docstrings and test vectors",
               "rounding ties may go either way; zone set-point/damper calls may also select the "
               "matching control type"]
REQUIRED_OBS = ["frames_judged", "ac_numbers_seen", "zone_numbers_seen", "setpoints_on_grid",
                "timer_calls", "enum_arguments"]
SOAK = True   # also judged by the whole-run monitors of the soak sessions (vf/soak.py)
BUDGET = {"quick": 100, "thorough": 1500}


def cases(tier, seed):
    rnd = random.Random(f"C04/{tier}/{seed}")
    # temperature grid sweeps (both generations), all abilities on
    for gen in (4, 5):
        for block in range(0, 60, 6 if tier == "thorough" else 12):
            yield {"k": "grid", "gen": gen, "seed": rnd.randrange(1 << 30), "block": block,
                   "width": 6 if tier == "thorough" else 12}
        yield {"k": "enum", "gen": gen, "seed": rnd.randrange(1 << 30)}
    n = 120 if tier == "quick" else 20000
    for _ in range(n):
        yield {"k": "random", "gen": rnd.choice((4, 5)), "seed": rnd.randrange(1 << 30),
               "ncalls": 120}


def run_case(case):
    gen = case["gen"]
    rnd = random.Random(case["seed"])
    viol, obs = [], {}
    seen = set()
    if case["k"] == "grid":
        inst = K.make_installation(gen, rnd, modes=31, fans=255, sensors=True, turbo=True)
        calls = []
        lo = 10 + case["block"] * 0.5
        temps = [round((lo + i * 0.05) * 20) / 20 for i in range(int(case["width"] * 10) + 1)]
        for ai in range(len(inst["acs"])):
            for t in temps:
                calls.append(("ac", ai, "set_target_temperature", (t,)))
            ab = inst["acs"][ai]["ability"]
            for zid in range(ab["start"], ab["start"] + ab["count"]):
                for t in temps[::3]:
                    calls.append(("zone", (ai, zid), "set_target_temperature", (t,)))
        obs["setpoints_on_grid"] = len(calls)
    elif case["k"] == "enum":
        inst = K.make_installation(gen, rnd, modes=31, fans=255, sensors=True, turbo=True,
                                   ac_ids=[0, 1, 2, 3] if gen == 4 else [0, 5, 10, 15])
        calls = []
        for ai in range(len(inst["acs"])):
            for p in K.POWERS5:
                calls.append(("ac", ai, "set_power", (p,)))
            for m in K.MODES:
                for po in (False, True):
                    calls.append(("ac", ai, "set_mode", (m, po)))
            for f in K.FANS5:
                calls.append(("ac", ai, "set_fan_speed", (f,)))
            for ty in ("ON_TIMER", "OFF_TIMER"):
                calls.append(("ac", ai, "clear_quick_timer", (ty,)))
                for h, m in ((0, 0), (23, 59), (12, 30), (7, 5)):
                    calls.append(("ac", ai, "set_quick_timer_time", (ty, h, m)))
                # times that carry seconds, a UTC offset or the fold flag: the wall-clock hour
                # and minute are what is requested
                for h, m, extra in ((21, 30, (0, 0, 600, 0)), (0, 5, (59, 999999, -300, 0)),
                                    (23, 59, (0, 0, 0, 0)), (2, 30, (0, 0, None, 1)),
                                    (12, 0, (0, 0, 765, 1))):
                    calls.append(("ac", ai, "set_quick_timer_time", (ty, h, m, extra)))
                for secs in (0, 59, 60, 3600, 5400, 86340, 86400, 100000, 172800):
                    calls.append(("ac", ai, "set_quick_timer_duration", (ty, secs)))
            ab = inst["acs"][ai]["ability"]
            for zid in range(ab["start"], ab["start"] + ab["count"]):
                for p in ("OFF", "ON", "TURBO"):
                    calls.append(("zone", (ai, zid), "set_power", (p,)))
                for d in range(0, 101, 5):
                    calls.append(("zone", (ai, zid), "set_damper_percentage", (d,)))
        calls.append(("at", 0, "check_for_updates", ()))
        obs["enum_arguments"] = len(calls)
    else:
        inst = K.make_installation(gen, rnd)
        calls = K.gen_calls(gen, inst, rnd, case["ncalls"])

    def on_result(call, exc, frames, writes, timers):
        refuse = K.should_refuse(gen, inst, call)
        if exc is not None or refuse or not K.admissible(gen, inst, call):
            return  # validation is C11's subject
        if len(frames) != 1:
            viol.append({"mechanism": "accepted-call-did-not-produce-one-frame",
                         "detail": {"gen": gen, "call": call, "frames": len(frames)}})
            return
        f, cmd = frames[0]
        for mech, d in K.judge_frame(gen, inst, call, f, cmd, timers):
            if mech == "other-timer-not-byte-identical":
                continue  # "exactly as last reported" is C11's clause
            viol.append({"mechanism": f"command-{mech}:at{gen}.{call[2]}",
                         "detail": dict(d, call=call, frame=f.raw, reading=H.jsonable(cmd))})
        obs["frames_judged"] = obs.get("frames_judged", 0) + 1
        seen.add(H.fingerprint((call, f.raw[-12:])))
        if call[0] == "ac":
            obs["ac_numbers_seen"] = obs.get("ac_numbers_seen", 0) + 1
            if "timer" in call[2]:
                obs["timer_calls"] = obs.get("timer_calls", 0) + 1
        elif call[0] == "zone":
            obs["zone_numbers_seen"] = obs.get("zone_numbers_seen", 0) + 1

    st = K.exercise(gen, inst, calls, on_result=on_result)
    if st.get("init") is not True or st["loop"] != "ok":
        viol.append({"mechanism": "command-world-did-not-run", "detail": {
            "init": repr(st.get("init")), "loop": st["loop"]}})
    if st["unhandled"]:
        viol.append({"mechanism": "unhandled-exception-during-commands",
                     "detail": H.jsonable(st["unhandled"][:2])})
    return {"violations": H.cap(viol), "evals": len(calls),
            "decided": obs.get("frames_judged", 0), "fps": seen, "obs": obs,
            "sample": {"gen": gen, "kind": case["k"], "calls": H.jsonable(calls[:5])}}
