"""C06 — checksum is CRC-16/MODBUS; damaged frames are never delivered."""

from __future__ import annotations

import asyncio
import itertools
import random

import pyairtouch.comms.crc16 as repo_crc

from .. import frames as F
from .. import harness as H
from .. import refproto as R
from ..sockworld import SockWorld, quiesce, baseline_delivery, describe, good_prefix_frames

ID = "C06"
LEVEL = "exploration"
EXHAUSTIVE = {"quick": False, "thorough": False}
RULE = ("O1: calculate()/validate() of the repo against a bitwise CRC-16/MODBUS reference for "
        "every 1- and 2-byte string (quick) and every 3-byte string (thorough, 256 blocks of "
        "65536), plus random strings up to 70 kB. O2: every frame kind x {every single-bit "
        "flip, double-bit flips, bursts <=16 bit} inside the CRC-covered bytes or check bytes, "
        "driven through the real receive path (intact A, damaged B, probes). A case is "
        "non-trivial when the damaged frame was actually read by the client and a reset "
        "(client close + new open) was observed; distinct = distinct (kind, error pattern).")
ASSUMPTIONS = ["refproto.crc16 (bitwise) is anchored by every CRC printed in the vendor PDFs",
               "SimNet models TCP delivery; fidelity cross-check in C07 thorough",
               "inductive extension of the CRC to all lengths is not claimed"]
REQUIRED_OBS = ["same_damaged_frame_on_two_connections", "damaged_copy_after_intact_original", "corner_frames_delivered", "crc_strings", "corrupt_resets", "probe_after_reset_delivered"]
BUDGET = {"quick": 100, "thorough": 1500}

MAX_PROBE_BYTES = 65535


def cases(tier, seed):
    rnd = random.Random(f"C06/{tier}/{seed}")
    # ---- O1
    yield {"k": "crc1"}
    for gen in (4, 5):
        yield {"k": "corner", "gen": gen}
        for i in range(2 if tier == "quick" else 40):
            yield {"k": "session", "gen": gen, "seed": rnd.randrange(1 << 30),
                   "rounds": 24 if i == 0 else rnd.randint(10, 60),
                   "prelude": i % 2 == 1, "refuse_first": i % 2 == 1 or i % 3 == 2}
    for gen in (4, 5):
        yield {"k": "pair", "gen": gen, "seed": 4200 + gen + seed,
               "rounds": 6 if tier == "quick" else 60}
    for b in range(256):
        yield {"k": "crc2", "b0": b}
    yield {"k": "crc_random", "seed": rnd.randrange(1 << 30),
           "n": 40 if tier == "quick" else 400}
    for i in range(4 if tier == "quick" else 60):
        yield {"k": "crc_inplace", "seed": rnd.randrange(1 << 30),
               "n": 200 if tier == "quick" else 2000}
    if tier == "thorough":
        for b in range(256):
            yield {"k": "crc3", "b0": b}
    # validate() against every one of the 65536 possible check values of a buffer
    nbuf = 8 if tier == "quick" else 160
    for i in range(nbuf):
        yield {"k": "crc_validate_all", "seed": rnd.randrange(1 << 30), "i": i}
    # ---- O2
    for gen in (4, 5):
        cat = F.catalogue(gen)
        for name, raw in sorted(cat.items()):
            s, e = F.covered_span(gen, raw)
            nbits = (e - s) * 8
            # all single-bit flips
            for chunk in _chunks(range(nbits), 64):
                yield {"k": "corrupt", "gen": gen, "kind": name,
                       "patterns": [[b] for b in chunk]}
            # alterations confined to the two check bytes (every one is a burst <= 16 bits):
            # structured ones always, all 65535 of them in the thorough tier
            cb0 = nbits - 16
            want = raw[-2:]
            structured = set()
            for x in ([want[1], want[0]], [want[0] ^ 0xFF, want[1] ^ 0xFF], [0, 0],
                      [0xFF, 0xFF], [_rev(want[0]), _rev(want[1])], [_rev(want[1]), _rev(want[0])],
                      [want[0], want[0]], [want[1], want[1]]):
                structured.add((x[0] << 8) | x[1])
            for v in range(256):
                structured.add((v << 8) | want[1])
                structured.add((want[0] << 8) | v)
            wantv = (want[0] << 8) | want[1]
            structured.discard(wantv)
            allv = structured if tier == "quick" else set(range(65536)) - {wantv}
            pats = []
            for v in sorted(allv):
                x = v ^ wantv
                pats.append([cb0 + j for j in range(16) if x & (0x8000 >> j)])
            for chunk in _chunks(pats, 128):
                yield {"k": "corrupt", "gen": gen, "kind": name, "patterns": chunk,
                       "check_bytes_only": True}
            # double-bit flips
            pairs = list(itertools.combinations(range(nbits), 2))
            if tier == "quick":
                sel = rnd.sample(pairs, min(len(pairs), 120))
            elif nbits <= 176:
                sel = pairs
            else:
                sel = rnd.sample(pairs, min(len(pairs), 6000))
            for chunk in _chunks(sel, 64):
                yield {"k": "corrupt", "gen": gen, "kind": name,
                       "patterns": [list(p) for p in chunk]}
            # bursts: first and last bit set, up to 16 bits long
            bursts = []
            per_off = 2 if tier == "quick" else 24
            for off in range(nbits - 1):
                for _ in range(per_off):
                    ln = rnd.randint(2, min(16, nbits - off))
                    mid = rnd.getrandbits(max(0, ln - 2)) if ln > 2 else 0
                    bits = [off, off + ln - 1] + [off + 1 + j for j in range(ln - 2)
                                                  if mid >> j & 1]
                    bursts.append(sorted(set(bits)))
            if tier == "quick":
                bursts = rnd.sample(bursts, min(len(bursts), 150))
            for chunk in _chunks(bursts, 64):
                yield {"k": "corrupt", "gen": gen, "kind": name, "patterns": chunk}


def _crc_more(reg, data):
    """Continue the reference (bitwise) CRC-16/MODBUS from register value `reg`."""
    for byte in data:
        reg ^= byte
        for _ in range(8):
            reg = (reg >> 1) ^ 0xA001 if reg & 1 else reg >> 1
    return reg


_CORNERS = {}


def corner_frames(gen):
    if gen not in _CORNERS:
        _CORNERS[gen] = _corner_frames(gen)
    return _CORNERS[gen]


def _corner_frames(gen):
    """Intact frames of unknown types that drive the CRC computation through the boundary
    values of its 16-bit state: register 0x0000 / 0xFFFF right after the six covered header
    bytes (for given addresses and type exactly one (packet id, length) pair does that), and
    a final check value of 0x0000 / 0xFFFF."""
    out = []
    for frm in (0x80, 0x90):
        for typ in (0x77, 0x01):
            for target in (0x0000, 0xFFFF):
                hit = None
                for pid in range(256):
                    reg5 = _crc_more(R.crc16(bytes([R.ADDR_CLIENT, frm, pid, typ])), b"\x00")
                    for ln in range(256):
                        if _crc_more(reg5, bytes([ln])) == target:
                            hit = (pid, ln)
                if hit is None:
                    continue
                pid, ln = hit
                body = bytes((7 * i + 3) % 251 if (7 * i + 3) % 251 != 0x55 else 0x54
                             for i in range(ln))
                out.append((f"header-state-{target:04x}", R.frame(gen, R.ADDR_CLIENT, frm, pid,
                                                                  typ, body)))
    # covered bytes whose value equals a prefix byte (0x55, 0xAA, 0xAB): the covered range
    # starts at the address byte whatever its value
    body = bytes(range(1, 8))
    for to, frm, pid in ((0x55, 0x80, 9), (R.ADDR_CLIENT, 0x55, 0x55), (0xAA, 0xAB, 0x55),
                         (0x55, 0x55, 0xAA)):
        out.append((f"prefix-valued-header-{to:02x}{frm:02x}{pid:02x}",
                    R.frame(gen, to, frm, pid, 0x77, body)))
    for target in (0x0000, 0xFFFF):
        head = bytes([R.ADDR_CLIENT, 0x80, 9, 0x77, 0, 12]) + bytes(range(1, 11))
        regh = R.crc16(head)
        for a in range(256):
            rega = _crc_more(regh, bytes([a]))
            for b in range(256):
                if a == 0x55 or b == 0x55:
                    continue
                if _crc_more(rega, bytes([b])) == target:
                    out.append((f"check-value-{target:04x}", R.frame(
                        gen, R.ADDR_CLIENT, 0x80, 9, 0x77, bytes(range(1, 11)) + bytes([a, b]))))
                    break
            else:
                continue
            break
    return out


def _rev(b):
    return int(f"{b:08b}"[::-1], 2)


def _chunks(seq, n):
    seq = list(seq)
    for i in range(0, len(seq), n):
        yield seq[i:i + n]


# ------------------------------------------------------------------ O1

_CALC = repo_crc.Crc16Modbus()


def _check_crc(buf, viol):
    want = R.crc_bytes(buf)
    got = _CALC.calculate(buf)
    if bytes(got) != want:
        viol.append({"mechanism": "crc-value-differs-from-modbus",
                     "detail": {"input": buf[:64], "len": len(buf), "got": bytes(got),
                                "want": want}})
        return False
    return True


def _check_validate(buf, viol):
    want = R.crc_bytes(buf)
    ok = _CALC.validate(buf, want)
    bad = bytes([want[0] ^ 0x01, want[1]])
    nok = _CALC.validate(buf, bad)
    if ok is not True or nok is not False:
        viol.append({"mechanism": "crc-validate-inconsistent",
                     "detail": {"input": buf[:64], "validate_right": ok,
                                "validate_wrong": nok}})


def _registries_use_crc(viol):
    # both registries must hand out a calculator that behaves like the reference
    for gen in (4, 5):
        cc = H.registry(gen).checksum_calculator
        for s in (b"\x80\xb0\x01\x2b\x00\x00", b"123456789"):
            if bytes(cc.calculate(s)) != R.crc_bytes(s) or cc.checksum_length != 2:
                viol.append({"mechanism": "registry-checksum-not-modbus",
                             "detail": {"gen": gen, "input": s}})


def run_crc(case):
    viol = []
    k = case["k"]
    n = 0
    if k == "crc1":
        _registries_use_crc(viol)
        for a in range(256):
            b = bytes([a])
            _check_crc(b, viol)
            _check_validate(b, viol)
            n += 1
        _check_crc(b"", viol)
    elif k == "crc2":
        for a in range(256):
            b = bytes([case["b0"], a])
            _check_crc(b, viol)
            if a % 16 == 0:
                _check_validate(b, viol)
            n += 1
    elif k == "crc3":
        b0 = case["b0"]
        calc = _CALC.calculate
        for a in range(256):
            # bitwise register after the two-byte prefix, then 8 shift steps per
            # third byte (still the bit-serial definition, prefix state shared)
            reg0 = R.crc16(bytes([b0, a]))
            for c in range(256):
                reg = reg0 ^ c
                for _ in range(8):
                    reg = (reg >> 1) ^ 0xA001 if reg & 1 else reg >> 1
                got = calc(bytes((b0, a, c)))
                if got[0] != reg >> 8 or got[1] != reg & 0xFF:
                    viol.append({"mechanism": "crc-value-differs-from-modbus",
                                 "detail": {"input": bytes((b0, a, c)), "got": bytes(got),
                                            "want": bytes([reg >> 8, reg & 0xFF])}})
                    if len(viol) > 5:
                        break
                n += 1
    elif k == "crc_validate_all":
        rnd = random.Random(case["seed"])
        i = case["i"]
        if i < 4:
            gen = 4 if i % 2 == 0 else 5
            cat = F.catalogue(gen)
            raw = cat[sorted(cat)[(i // 2) % len(cat)]]
            s0, e0 = F.covered_span(gen, raw)
            buf = raw[s0:e0 - 2]
        else:
            buf = rnd.randbytes(rnd.choice([1, 2, 6, 10, 33]))
        want = R.crc_bytes(buf)
        wantv = (want[0] << 8) | want[1]
        validate = _CALC.validate
        wrong_accepted = []
        for v in range(65536):
            ok = validate(buf, bytes((v >> 8, v & 0xFF)))
            if ok is not (v == wantv):
                wrong_accepted.append(v)
                if len(wrong_accepted) > 3:
                    break
            n += 1
        if wrong_accepted:
            viol.append({"mechanism": "crc-validate-accepts-wrong-check-value",
                         "detail": {"input": buf[:64], "right": want,
                                    "accepted_or_rejected_wrongly": [hex(x) for x in
                                                                     wrong_accepted]}})
    elif k == "crc_inplace":
        # the documented argument type is bytes | bytearray: one buffer object handed in again
        # and again, changed in place in between (one byte, one bit, grown, shrunk, restored)
        rnd = random.Random(case["seed"])
        calc = repo_crc.Crc16Modbus() if case["seed"] % 2 else _CALC
        buf = bytearray(rnd.randbytes(rnd.choice([1, 2, 6, 12, 40, 300])))
        for i in range(case["n"]):
            what = rnd.randrange(7)
            if what == 0 and buf:
                buf[rnd.randrange(len(buf))] ^= 1 << rnd.randrange(8)
            elif what == 1 and buf:
                buf[rnd.randrange(len(buf))] = rnd.randrange(256)
            elif what == 2:
                buf += rnd.randbytes(rnd.randint(1, 4))
            elif what == 3 and len(buf) > 2:
                del buf[rnd.randrange(len(buf))]
            elif what == 4 and buf:
                j = rnd.randrange(len(buf))
                buf[j] ^= 0xFF
                calc.calculate(buf)
                buf[j] ^= 0xFF
            elif what == 5 and len(buf) > 1:
                buf[0], buf[-1] = buf[-1], buf[0]
            # what == 6: unchanged, asked again
            want = R.crc_bytes(bytes(buf))
            got = calc.calculate(buf)
            if bytes(got) != want:
                viol.append({"mechanism": "crc-value-differs-from-modbus",
                             "detail": {"input": bytes(buf[:64]), "len": len(buf),
                                        "got": bytes(got), "want": want,
                                        "buffer_changed_in_place": True, "step": i}})
                break
            ok = calc.validate(buf, want)
            nok = calc.validate(buf, bytes([want[0], want[1] ^ 0x80]))
            frozen = calc.calculate(bytes(buf))
            if ok is not True or nok is not False or bytes(frozen) != want:
                viol.append({"mechanism": "crc-validate-inconsistent",
                             "detail": {"input": bytes(buf[:64]), "validate_right": ok,
                                        "validate_wrong": nok, "as_bytes": bytes(frozen),
                                        "buffer_changed_in_place": True, "step": i}})
                break
            n += 1
    elif k == "crc_random":
        rnd = random.Random(case["seed"])
        for i in range(case["n"]):
            ln = rnd.choice([4, 9, 17, 64, 255, 256, 257, 1000, 4096, 65535, 70000,
                             4095, 4097, 8191, 8192, 8193, 12289, 16385, 65537, 1023, 1025,
                             2049, 32769, 4096 * rnd.randint(1, 12) + rnd.choice([-1, 0, 1, 2]),
                             1024 * rnd.randint(1, 40) + rnd.choice([-1, 1])]) \
                if i % 3 == 0 else rnd.randint(4, 300)
            b = rnd.randbytes(ln)
            _check_crc(b, viol)
            _check_validate(b, viol)
            n += 1
    return {"violations": H.cap(viol), "evals": n, "decided": n, "distinct": n,
            "obs": {"crc_strings": n}, "sample": {"case": case, "strings": n}}


# ------------------------------------------------------------------ O2

def flip(raw, gen, bits):
    s, _ = F.covered_span(gen, raw)
    b = bytearray(raw)
    for bit in bits:
        b[s + bit // 8] ^= 0x80 >> (bit % 8)
    return bytes(b)


def run_corrupt_one(gen, kind, raw_a, raw_b_intact, bits, again=False):
    """Deliver intact A, damaged B, then probes.  Returns (violations, obs)."""
    damaged = flip(raw_b_intact, gen, bits)
    base_a = baseline_delivery(gen, raw_a)
    base_q = baseline_delivery(gen, F.probe_frame(gen, 250))
    probe_base = {}

    async def main(loop, net, log):
        w = SockWorld(gen, loop, net, log)
        await w.open()
        c1 = net.current()
        stream = bytearray(raw_a + damaged)
        c1.transport.peer_data(bytes(stream))
        await quiesce(loop)
        pid = 100
        sent_probe_bytes = 0
        while c1.open and sent_probe_bytes <= MAX_PROBE_BYTES + 4096:
            chunk = bytearray()
            # bulk up to 2 kB of probes per turn
            while len(chunk) < 2048:
                p = F.probe_frame(gen, pid)
                probe_base[bytes(p)] = pid
                pid += 1
                chunk += p
            ok = c1.transport.peer_data(bytes(chunk))
            if not ok:
                break
            stream += chunk
            sent_probe_bytes += len(chunk)
            await quiesce(loop)
        closed = not c1.open
        # after the reset the client re-connects at once
        await asyncio.sleep(0.01)
        await quiesce(loop)
        c2 = net.current()
        reopened = c2 is not None and c2.id != c1.id
        n_before = len(w.msgs)
        q = F.probe_frame(gen, 250)
        got_q = False
        again_res = None
        if reopened and again and len(damaged) == len(raw_b_intact):
            # the very same damaged frame once more, first thing on the new connection (a
            # persistent corruption): dropped again, connection re-established again
            c2.transport.peer_data(damaged)
            await quiesce(loop)
            again_res = {"delivered": len(w.msgs) - n_before, "closed": not c2.open}
            await asyncio.sleep(0.01)
            await quiesce(loop)
            n_before = len(w.msgs)
            c2 = net.current()
            reopened = c2 is not None
        if reopened:
            c2.transport.peer_data(q)
            await quiesce(loop)
            got_q = (len(w.msgs) == n_before + 1
                     and describe(w.msgs[-1][1], w.msgs[-1][2]) == base_q)
        deliveries = [(cid, describe(h, m)) for cid, h, m in w.msgs[:n_before]]
        maxopen = net.max_open
        await w.close()
        return {"stream": bytes(stream), "closed": closed, "reopened": reopened, "again": again_res,
                "got_q": got_q, "deliveries": deliveries, "c1": c1.id,
                "probe_bytes": sent_probe_bytes, "max_open": maxopen}

    out, log, st = H.run(main)
    viol = []
    obs = {}

    def v(mech, **d):
        viol.append({"mechanism": mech, "detail": dict(gen=gen, kind=kind, bits=bits, **d),
                     "log": H.log_slice(log, 40)})

    if st != "ok" or out is None:
        v("corrupt-frame-hang", status=st)
        return viol, obs
    good, needs_reset, _ = good_prefix_frames(gen, out["stream"])
    # sanity of the generator: a pattern CRC-16 detects in covered/check bytes with the
    # length field intact must make the reference reject B itself
    # (length-field damage is judged by the reference parse of the whole stream)
    fb = R.parse_stream(gen, damaged)[0]
    if fb and fb[0].raw == damaged and fb[0].crc_ok:
        # the altered frame carries the right check value for its altered bytes: not an error
        # pattern CRC-16 detects (with the check bytes sent high byte first, a run of bits
        # that crosses from the covered bytes into the check bytes is no burst of the code).
        # Outside the premise of the property: whatever the client makes of it is not judged.
        obs["pattern_not_detected_by_crc16"] = 1
        return viol, obs
    expected = []
    for f in good:
        b = baseline_delivery(gen, f.raw)
        if b is None:
            # a frame the reference frames as whole (e.g. a damaged length field that happens
            # to cut the frame where the following bytes verify) but which the client cannot
            # decode on its own either: nothing is delivered from there on
            obs["reference_frame_undecodable_for_client"] = 1
            break
        expected.append(b)
    got = [d for cid, d in out["deliveries"] if cid == out["c1"]]
    if len(good) >= 1 and good[0].raw != raw_a:
        v("harness-inconsistent", note="A not first good frame")
    if got != expected:
        # which way?
        extra = [g for g in got if g not in expected]
        if extra:
            v("damaged-frame-delivered", delivered=extra[:2], expected_n=len(expected),
              got_n=len(got))
        else:
            v("intact-frame-before-damage-not-delivered", expected_n=len(expected),
              got_n=len(got))
    if not needs_reset:
        # cannot happen for detected patterns; reference says the stream is fine
        obs["pattern_not_an_error"] = 1
        return viol, obs
    if not out["closed"]:
        v("no-reset-after-damaged-frame", probe_bytes=out["probe_bytes"])
        return viol, obs
    if out.get("again") is not None:
        if out["again"]["delivered"]:
            v("damaged-frame-delivered", note="same damaged frame again on the next connection")
        elif not out["again"]["closed"]:
            v("no-reset-after-damaged-frame", note="same damaged frame again on the next "
              "connection")
        else:
            obs["same_damaged_frame_on_two_connections"] = 1
    obs["corrupt_resets"] = 1
    if not out["reopened"]:
        v("no-reconnect-after-damaged-frame")
        return viol, obs
    if out["max_open"] > 1:
        v("two-connections-open", max_open=out["max_open"])
    if not out["got_q"]:
        v("probe-after-reset-not-delivered")
    else:
        obs["probe_after_reset_delivered"] = 1
    if out["probe_bytes"] > 4096:
        obs["length_field_damage_long_wait"] = 1
    return viol, obs


def run_corner(case):
    """Frames at the boundary values of the CRC state: intact they are delivered like any
    other (between two probes, no reset); with their check bytes replaced by plausible wrong
    values (CRC of the payload alone, of the header alone, 0x0000, 0xFFFF) they are not."""
    gen = case["gen"]
    viol, obs = [], {}
    n = 0
    a, q = F.probe_frame(gen, 7), F.probe_frame(gen, 8)
    for name, raw in corner_frames(gen):
        async def main(loop, net, log, raw=raw):
            w = SockWorld(gen, loop, net, log)
            await w.open()
            c = net.current()
            c.transport.peer_data(a + raw + q)
            await quiesce(loop)
            res = (len(w.msgs), c.open, len(net.conns))
            await w.close()
            return res
        res, log, st = H.run(main)
        n += 1
        if st != "ok" or res != (3, True, 1):
            viol.append({"mechanism": "intact-frame-at-crc-state-boundary-not-delivered",
                         "detail": {"gen": gen, "which": name, "frame": raw, "delivered": res,
                                    "status": st}, "log": H.log_slice(log, 20)})
            continue
        obs["corner_frames_delivered"] = obs.get("corner_frames_delivered", 0) + 1
        s0, _ = F.covered_span(gen, raw)
        covered = raw[s0:-2]
        right = raw[-2:]
        for wrong in (R.crc_bytes(covered[6:]), R.crc_bytes(covered[:6]), b"\x00\x00",
                      b"\xff\xff", bytes([right[1], right[0]])):
            if wrong == right:
                continue
            x = (right[0] ^ wrong[0]) << 8 | (right[1] ^ wrong[1])
            base = 8 * len(covered)
            bits = [base + i for i in range(16) if x >> (15 - i) & 1]
            vv, oo = run_corrupt_one(gen, name, a, raw, bits)
            n += 1
            viol += vv
            for k2, c2 in oo.items():
                obs[k2] = obs.get(k2, 0) + c2
    return {"violations": H.cap(viol), "evals": n, "decided": n, "distinct": n, "obs": obs,
            "sample": {"gen": gen, "corner_frames": len(corner_frames(gen))}}


def run_session(case):
    """ONE open socket, many damaged frames over its life-time (each between intact ones, with
    idle time): after every one of them the link comes back and the next intact frame is
    delivered - the twentieth time as the first."""
    import asyncio
    gen = case["gen"]
    rnd = random.Random(case["seed"])
    cat = F.catalogue(gen)
    kinds = sorted(k for k in cat if not k.startswith("unknown"))
    viol, obs, out = [], {}, {"rounds": 0}

    async def main(loop, net, log):
        w = SockWorld(gen, loop, net, log)
        if case.get("prelude"):
            # an earlier life of the same socket object that ended during the back-off after a
            # refused attempt (an init() that gave up, say)
            net.script.append(("refuse", 0.0))
            await w.sock.open_socket()
            await asyncio.sleep(0.7)
            await w.sock.close()
            await quiesce(loop)
            obs["sessions_after_a_life_that_ended_in_the_back_off"] = 1
        await w.open()
        for i in range(case["rounds"]):
            c = net.current()
            if c is None:
                out["fail"] = ("no-connection", i)
                return
            if case.get("refuse_first") and i % 3 == 0:
                # the console is not ready at once: the first reconnection is refused
                net.script.append(("refuse", 0.0))
                obs["reconnections_refused_once_after_a_damaged_frame"] = obs.get(
                    "reconnections_refused_once_after_a_damaged_frame", 0) + 1
            raw = cat[rnd.choice(kinds)]
            lo, hi = F.covered_span(gen, raw)
            bad = bytearray(raw)
            # (not in the two length bytes: a longer announced length just makes the client
            # wait for more bytes - the probing cases deal with that)
            while True:
                bit = rnd.randrange(lo * 8, hi * 8)
                if bit // 8 not in (lo + 4, lo + 5):
                    break
            bad[bit // 8] ^= 0x80 >> (bit % 8)
            n0 = len(w.msgs)
            c.transport.peer_data(F.probe_frame(gen, i))
            await quiesce(loop)
            if len(w.msgs) != n0 + 1 or net.current() is not c:
                out["fail"] = ("intact-frame-not-delivered", i)
                return
            c.transport.peer_data(bytes(bad))
            await quiesce(loop)
            if len(w.msgs) != n0 + 1:
                out["fail"] = ("damaged-frame-delivered", i)
                return
            await asyncio.sleep(rnd.choice([2.5, 2.5, 40.0, 301.0]))
            await quiesce(loop)
            c2 = net.current()
            if c2 is None or c2 is c or len(net.open_conns()) != 1:
                out["fail"] = ("not-reconnected-after-damaged-frame", i)
                return
            out["rounds"] = i + 1
        await w.close()

    _, log, st = H.run(main)
    if st != "ok":
        viol.append({"mechanism": "socket-scenario-hang", "detail": {"status": st}})
    elif "fail" in out:
        what, i = out["fail"]
        mech = {"not-reconnected-after-damaged-frame": "no-reset-after-damaged-frame",
                "no-connection": "no-reset-after-damaged-frame",
                "damaged-frame-delivered": "damaged-frame-delivered",
                "intact-frame-not-delivered": "intact-frame-after-reconnect-not-delivered"}[what]
        viol.append({"mechanism": mech, "detail": {"gen": gen, "round": i, "what": what,
                                                   "session": True}})
    obs["damaged_frames_in_one_session"] = out["rounds"]
    return {"violations": viol, "evals": case["rounds"], "decided": out["rounds"],
            "distinct": out["rounds"], "obs": obs, "sample": {"gen": gen, "session": True}}


def run_pair(case):
    """Two sockets of one process connected to the same console (same host and port) receive
    a damaged frame in the same loop iteration: each drops it, resets and is re-established,
    and the next intact frame reaches both."""
    import asyncio
    gen = case["gen"]
    rnd = random.Random(case["seed"])
    cat = F.catalogue(gen)
    kinds = sorted(k for k in cat if not k.startswith("unknown"))
    viol, obs, out = [], {}, {"rounds": 0}

    async def main(loop, net, log):
        ws = [SockWorld(gen, loop, net, log), SockWorld(gen, loop, net, log)]
        for w in ws:
            await w.open()
        await quiesce(loop)
        for i in range(case["rounds"]):
            conns = net.open_conns()
            if len(conns) != 2:
                out["fail"] = ("not-two-connections", i, len(conns))
                return
            n0 = [len(w.msgs) for w in ws]
            for c in conns:
                c.transport.peer_data(F.probe_frame(gen, i))
            await quiesce(loop)
            if [len(w.msgs) for w in ws] != [n + 1 for n in n0]:
                out["fail"] = ("intact-frame-not-delivered-to-both", i,
                               [len(w.msgs) - n for w, n in zip(ws, n0)])
                return
            raw = cat[rnd.choice(kinds)]
            lo, hi = F.covered_span(gen, raw)
            bad = bytearray(raw)
            while True:
                bit = rnd.randrange(lo * 8, hi * 8)
                if bit // 8 not in (lo + 4, lo + 5):
                    break
            bad[bit // 8] ^= 0x80 >> (bit % 8)
            for c in conns:                    # the same instant for both
                c.transport.peer_data(bytes(bad))
            await quiesce(loop)
            if [len(w.msgs) for w in ws] != [n + 1 for n in n0]:
                out["fail"] = ("damaged-frame-delivered", i, None)
                return
            await asyncio.sleep(2.5)
            await quiesce(loop)
            now = net.open_conns()
            if len(now) != 2 or any(c in conns for c in now):
                out["fail"] = ("not-both-re-established", i, len(now))
                return
            out["rounds"] = i + 1
        for w in ws:
            await w.close()

    _, log, st = H.run(main)
    if st != "ok":
        viol.append({"mechanism": "socket-scenario-hang", "detail": {"status": st}})
    elif "fail" in out:
        what, i, extra = out["fail"]
        mech = {"not-both-re-established": "no-reset-after-damaged-frame",
                "not-two-connections": "no-reset-after-damaged-frame",
                "damaged-frame-delivered": "damaged-frame-delivered",
                "intact-frame-not-delivered-to-both":
                    "intact-frame-after-reconnect-not-delivered"}[what]
        viol.append({"mechanism": mech, "detail": {"gen": gen, "round": i, "what": what,
                                                   "extra": extra, "two_sockets": True},
                     "log": H.log_slice(log, 30)})
    obs["damaged_frames_hitting_two_sockets_at_once"] = out["rounds"]
    return {"violations": viol, "evals": case["rounds"], "decided": out["rounds"],
            "distinct": out["rounds"], "obs": obs, "sample": {"gen": gen, "pair": True}}


def run_case(case):
    if case["k"] == "pair":
        return run_pair(case)
    if case["k"] == "session":
        return run_session(case)
    if case["k"] == "corner":
        return run_corner(case)
    if case["k"].startswith("crc"):
        return run_crc(case)
    gen, kind = case["gen"], case["kind"]
    cat = F.catalogue(gen)
    raw_b = cat[kind]
    raw_a = F.probe_frame(gen, 7)
    viol = []
    obs = {}
    decided = 0
    for pi, bits in enumerate(case["patterns"]):
        # (not with a damaged length field: the copy alone would not be a complete frame)
        vv, oo = run_corrupt_one(gen, kind, raw_a, raw_b, bits,
                                 again=pi % 5 == 0 and not any(32 <= b < 48 for b in bits))
        if not vv and max(bits) < 48:
            # damage confined to the covered header bytes: also with the intact frame itself
            # (same payload, same check bytes) delivered right before its damaged copy
            vv, o2 = run_corrupt_one(gen, kind, raw_b, raw_b, bits)
            oo["damaged_copy_after_intact_original"] = 1
            for k2, c2 in o2.items():
                oo[k2] = oo.get(k2, 0) + c2
        viol += vv
        for k, n in oo.items():
            obs[k] = obs.get(k, 0) + n
        decided += oo.get("corrupt_resets", 0)
        if vv:
            break
    obs["corrupt_cases"] = len(case["patterns"])
    return {"violations": H.cap(viol), "evals": len(case["patterns"]), "decided": decided,
            "distinct": decided, "obs": obs,
            "sample": {"gen": gen, "kind": kind, "frame": raw_b,
                       "first_pattern_bits": case["patterns"][0]}}
