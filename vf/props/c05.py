"""C05 — status frames are interpreted as the vendor protocol defines."""

from __future__ import annotations

import random

import pyairtouch.at4.comms.hdr as hdr4
import pyairtouch.at5.comms.hdr as hdr5
from pyairtouch import comms

from .. import extract as X
from .. import frames as F
from .. import harness as H
from .. import refproto as R

ID = "C05"
LEVEL = "exploration"
EXHAUSTIVE = {"quick": False, "thorough": False}
RULE = ("Per record layout of both generations (AT4 0x2B, 0x2D, 0x37, FF10, FF11 22/24-byte, "
        "FF12, FF30; AT5 0xC021, 0xC023 8/10-byte, 0xC033, FF10, FF11, FF13, FF30): every byte "
        "position x all 256 values over three baselines (quick), every adjacent byte pair x all "
        "65536 values (thorough), random whole records, counts 0..16, AT5 strides known..known+6 "
        "with random filler, 0xC0 sub-header bytes varied; the payload goes to the registry's "
        "public decoder and every field is compared with the independent reference reading. "
        "Non-trivial = the repo decoded the payload to a value AND the reference has a reading; "
        "distinct = distinct payload bytes.")
ASSUMPTIONS = ["refproto readings are transcribed from the vendor PDFs and validated on every "
               "worked example; timer layouts are undocumented (taken from repo docstrings)",
               "a payload the repo rejects (any exception / leftover bytes) is allowed by the "
               "property and not counted as decided",
               "structurally inconsistent payloads (reference rejects) are undecided"]
REQUIRED_OBS = ["same_data_announced_differently", "decoded_and_compared", "layouts_seen", "na_sentinel_payloads", "stride_gt_known"]
BUDGET = {"quick": 100, "thorough": 1500}

# layout name -> (gen, typ, prefix, record length(s) baselines builder)
_H4 = lambda typ, n: hdr4.At4Header(0xB0, 0x90 if typ == 0x1F else 0x80, 1, typ, n)
_H5 = lambda typ, n: hdr5.At5Header(0xB0, 0x90 if typ == 0x1F else 0x80, 1, typ, n)


def decode(gen, typ, payload):
    """Public decoder of the registry; returns (message|None, why_rejected)."""
    reg = H.registry(gen)
    hdr = (_H4 if gen == 4 else _H5)(typ, len(payload))
    try:
        res = reg.get_decoder(typ).decode(bytes(payload), hdr)
        res.assert_complete()
    except Exception as e:  # any exception = the receive path rejects the frame
        return None, type(e).__name__
    return res.message, None


def payload_of(raw, gen):
    f = R.parse_stream(gen, raw)[0][0]
    return f.typ, bytes(f.data)


def layouts():
    """name -> (gen, typ, baseline payloads, (lo, hi) byte range to mutate)."""
    out = {}
    for gen in (4, 5):
        rnd = random.Random(f"C05-baselines-{gen}")
        kinds = {}
        tries = 0
        while tries < 4000:
            tries += 1
            k, raw = F.random_status_frame(gen, rnd)
            typ, data = payload_of(raw, gen)
            if k == "ability" and gen == 4:
                k = "ability24" if len(data) > 2 and data[3] == 24 else "ability22"
            if k == "ac_status" and gen == 5:
                st = (data[4] << 8) | data[5]
                if st not in (8, 10):
                    continue
                k = f"ac_status{st}"
            if k in ("zone_status", "timer_status") and gen == 5:
                st = (data[4] << 8) | data[5]
                if st != (8 if k == "zone_status" else 9) or ((data[6] << 8) | data[7]) == 0:
                    continue
            if k.startswith("ac_status") and gen == 5 and ((data[6] << 8) | data[7]) == 0:
                continue
            lst = kinds.setdefault(k, [])
            if len(lst) < 3 and len(data) <= 64:
                lst.append((typ, data))
        for k, lst in kinds.items():
            out[f"at{gen}.{k}"] = (gen, lst[0][0], [d for _, d in lst])
    return out


_LAYOUTS = None


def get_layouts():
    global _LAYOUTS
    if _LAYOUTS is None:
        _LAYOUTS = layouts()
    return _LAYOUTS


def cases(tier, seed):
    rnd = random.Random(f"C05/{tier}/{seed}")
    L = get_layouts()
    yield {"k": "anchors"}
    for name in sorted(L):
        gen, typ, bases = L[name]
        for bi, base in enumerate(bases):
            for pos in range(len(base)):
                yield {"k": "byte", "layout": name, "base": bi, "pos": pos}
        if tier == "thorough":
            base = bases[0]
            for pos in range(len(base) - 1):
                for hi in range(0, 256, 32):
                    yield {"k": "pair", "layout": name, "pos": pos, "hi0": hi, "hi1": hi + 32}
    n = 60 if tier == "quick" else 3000
    for i in range(n):
        for gen in (4, 5):
            yield {"k": "random", "gen": gen, "seed": rnd.randrange(1 << 30), "n": 200}
    for i in range(n // 2):
        yield {"k": "stride", "seed": rnd.randrange(1 << 30), "n": 100}


def judge(gen, typ, payload, layout, viol, obs):
    msg, why = decode(gen, typ, payload)
    if msg is None:
        obs["repo_rejected"] = obs.get("repo_rejected", 0) + 1
        return 0
    try:
        ref = R.read_status(gen, typ, payload)
    except R.Reject:
        obs["ref_rejects_repo_decodes"] = obs.get("ref_rejects_repo_decodes", 0) + 1
        extra = X.records_beyond_announced(gen, typ, payload, X.extract(gen, msg))
        if extra:
            viol.append({"mechanism": f"records-decoded-beyond-the-announced-count:{layout}",
                         "detail": {"payload": payload, "typ": typ, "extra_records": extra}})
            return 1
        return 0
    if ref is R.UNDEC:
        obs["undecided"] = obs.get("undecided", 0) + 1
        return 0
    got = X.extract(gen, msg)
    if not X.same_shape(ref, got):
        viol.append({"mechanism": f"decoded-as-wrong-kind:{layout}",
                     "detail": {"payload": payload, "typ": typ, "ref": sorted(ref),
                                "got": sorted(got)}})
        return 1
    for path, kind, rv, gv in X.compare(ref, got):
        field = path.replace("[]", "")
        if field.startswith("names."):
            field = "names.name"
        if kind == "na-as-value":
            mech = f"na-sentinel-decoded-as-value:{layout.split('.')[0]}.{_lay(layout)}.{field.split('.')[-1]}"
        else:
            mech = f"field-decoded-differently:{layout.split('.')[0]}.{_lay(layout)}.{field.split('.')[-1]}"
        viol.append({"mechanism": mech,
                     "detail": {"payload": payload, "typ": typ, "field": path,
                                "reference": rv, "repo": gv}})
    return 1


def _lay(layout):
    k = layout.split(".", 1)[1]
    for p in ("ability", "ac_status"):
        if k.startswith(p):
            return p
    return k


ANCHORS = [
    # (gen, typ, payload hex, note) — minimal witnesses of findings ever made here
    (5, 0xC0, "23000000000a0001" "1012ffc002da00000000", "AT5 AC set-point 0xFF"),
    (5, 0xC0, "23000000000a0001" "101278c007ff00000000", "AT5 AC temperature 0x7FF"),
    (4, 0x2D, "40421a00ff000000", "AT4 AC temperature byte5=0xFF"),
    (4, 0x2B, "41e41a80ff200000"[:12], "AT4 group temperature byte5=0xFF, byte6 bits set"),
    (4, 0x2B, "41e41a80ffe0", "AT4 group temperature byte5=0xFF, byte6=0xE0"),
]


def run_case(case):
    viol = []
    obs = {}
    k = case["k"]
    L = get_layouts()
    n = 0
    dec = 0
    fps = set()
    sample = None
    if k == "anchors":
        for gen, typ, hx, note in ANCHORS:
            p = bytes.fromhex(hx)
            dec += judge(gen, typ, p, {(4, 0x2D): "at4.ac_status", (4, 0x2B): "at4.group_status",
                                       (5, 0xC0): "at5.ac_status10"}[(gen, typ)], viol, obs)
            n += 1
            obs["na_sentinel_payloads"] = obs.get("na_sentinel_payloads", 0) + 1
        obs["layouts_seen"] = len(L)
        sample = {"anchors": [a[3] for a in ANCHORS]}
        return {"violations": H.cap(viol, 2, 40), "evals": n, "decided": dec, "distinct": dec,
                "obs": obs, "sample": sample}
    if k == "byte":
        gen, typ, bases = L[case["layout"]]
        base = bytearray(bases[case["base"]])
        pos = case["pos"]
        for v in range(256):
            if v == base[pos] and pos > 0:
                continue  # the baseline itself: counted once, at pos 0
            p = bytearray(base)
            p[pos] = v
            dec += judge(gen, typ, bytes(p), case["layout"], viol, obs)
            n += 1
        sample = {"layout": case["layout"], "base": bytes(base), "pos": pos}
    elif k == "pair":
        gen, typ, bases = L[case["layout"]]
        base = bytearray(bases[0])
        pos = case["pos"]
        for a in range(case["hi0"], case["hi1"]):
            for b in range(256):
                if a == base[pos] or b == base[pos + 1]:
                    continue  # covered by the single-byte sweep
                p = bytearray(base)
                p[pos], p[pos + 1] = a, b
                dec += judge(gen, typ, bytes(p), case["layout"], viol, obs)
                n += 1
            if len(viol) > 200:
                break
        sample = {"layout": case["layout"], "pos": pos, "pair_block": [case["hi0"], case["hi1"]]}
    elif k == "random":
        rnd = random.Random(case["seed"])
        gen = case["gen"]
        for _ in range(case["n"]):
            kind, raw = F.random_status_frame(gen, rnd)
            typ, data = payload_of(raw, gen)
            data = bytearray(data)
            # random whole-record noise on top of a decodable frame
            if rnd.random() < 0.6 and len(data) > 2:
                lo = 8 if typ == 0xC0 else (2 if typ == 0x1F else 0)
                for _ in range(rnd.randint(1, 6)):
                    if lo < len(data):
                        data[rnd.randrange(lo, len(data))] = rnd.randrange(256)
            d = judge(gen, typ, bytes(data), f"at{gen}.{kind}", viol, obs)
            dec += d
            if d:
                fps.add(hash((gen, typ, bytes(data))))
            n += 1
        sample = {"gen": gen, "random_frames": case["n"]}
    elif k == "stride":
        rnd = random.Random(case["seed"])
        for _ in range(case["n"]):
            sub = rnd.choice([0x21, 0x23, 0x33])
            known = {0x21: 8, 0x23: 8, 0x33: 9}[sub]
            st = known + rnd.randint(0, 6)
            cnt = rnd.randint(0, 16)
            recs = []
            for _i in range(cnt):
                kind, raw = None, None
                while True:
                    kind, raw = F.random_status_frame(5, rnd)
                    typ, data = payload_of(raw, 5)
                    if typ == 0xC0 and data[0] == sub and ((data[6] << 8) | data[7]) > 0:
                        break
                rl = (data[4] << 8) | data[5]
                rec = data[8:8 + known]
                recs.append(rec + rnd.randbytes(st - known))
            payload = R.c0(sub, st, recs)
            if rnd.random() < 0.2:
                # non-repeating data of a later protocol version in front of the records:
                # rejected, or the records read from behind it - never from inside it
                payload = R.c0(sub, st, recs, normal=rnd.randbytes(rnd.choice([1, 2, 8, 9, st])))
                obs["normal_data_before_records"] = obs.get("normal_data_before_records", 0) + 1
                d = judge(5, 0xC0, payload, {0x21: "at5.zone_status", 0x23: "at5.ac_status10",
                                             0x33: "at5.timer_status"}[sub], viol, obs)
                dec += d
                n += 1
                continue
            if cnt > 0 and decode(5, 0xC0, payload)[0] is None:
                viol.append({"mechanism": "announced-stride-not-honoured:at5." + {
                    0x21: "zone_status", 0x23: "ac_status", 0x33: "timer_status"}[sub],
                    "detail": {"payload": payload, "stride": st, "known": known,
                               "why": decode(5, 0xC0, payload)[1]}})
            d = judge(5, 0xC0, payload, {0x21: "at5.zone_status", 0x23: "at5.ac_status10",
                                         0x33: "at5.timer_status"}[sub], viol, obs)
            dec += d
            if d:
                fps.add(hash((5, 0xC0, bytes(payload))))
            if st > known and cnt > 0 and d:
                obs["stride_gt_known"] = obs.get("stride_gt_known", 0) + 1
            n += 1
            # the very same data bytes announced differently right afterwards (half as many
            # records twice as long): a reading of its own
            if cnt >= 2 and cnt % 2 == 0:
                data = b"".join(recs)
                st2, cnt2 = 2 * st, cnt // 2
                payload2 = R.c0(sub, st2, [data[i * st2:(i + 1) * st2] for i in range(cnt2)])
                d2 = judge(5, 0xC0, payload2, {0x21: "at5.zone_status", 0x23: "at5.ac_status10",
                                               0x33: "at5.timer_status"}[sub], viol, obs)
                dec += d2
                n += 1
                if d2:
                    obs["same_data_announced_differently"] = obs.get(
                        "same_data_announced_differently", 0) + 1
        sample = {"strides": "known..known+6", "n": case["n"]}
    obs["decoded_and_compared"] = dec
    if k in ("random", "stride"):
        return {"violations": H.cap(viol, 2, 40), "evals": n, "decided": dec, "fps": fps,
                "obs": obs, "sample": sample}
    return {"violations": H.cap(viol, 2, 40), "evals": n, "decided": dec, "distinct": dec,
            "obs": obs, "sample": sample}
