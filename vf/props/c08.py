"""C08 — heartbeat detects a dead link, and only a dead link."""

from __future__ import annotations

import asyncio
import itertools
import random

import pyairtouch.comms.heartbeat as hb

from .. import apiworld as AW
from .. import console as C
from .. import harness as H
from .. import refproto as R
from ..sockworld import SockWorld, quiesce

ID = "C08"
LEVEL = "fault_enumeration"
EXHAUSTIVE = {"quick": False, "thorough": False}
RULE = ("Answer patterns over N=12 consecutive heartbeats, each heartbeat answered promptly, "
        "late by d in {1, 29, 29.999, 30.001, 45 s} or never: all 3^k patterns over {prompt, "
        "late 45, never} for k<=4 (quick) / k<=6 (thorough), random patterns over all delays, "
        "silence starting at the first heartbeat / after a response / after a previous timeout "
        "reset; both generations through the full API (init against the simulated console) and "
        "HeartbeatManager directly with custom (interval, timeout) pairs; link outages unrelated "
        "to the heartbeat (peer FIN/RST, reconnect taking 1..25 s) around heartbeat ticks, "
        "with up to 10 commands queued while down. Oracle: a silence-"
        "clock model predicts the instants of version requests and of client-initiated "
        "close+open from the console-side timestamps. Non-trivial = at least 3 heartbeats were "
        "observed and compared; distinct = distinct (generation, config, pattern).")
ASSUMPTIONS = ["virtual clock; verdict on virtual instants (+-1 us)",
               "a response arriving at the very instant of the deadline is a tie: undecided",
               "no other fault disturbs the link in these scenarios"]
REQUIRED_OBS = ["heartbeats_compared", "timeout_resets_predicted_and_seen",
                "never_answered_from_start", "all_answered_no_reset", "custom_configs",
                "reset_after_previous_reset", "after_init_shutdown_cycle",
                "after_a_failed_init_and_shutdown", "reset_after_a_refused_reconnection",
                "reset_after_socket_closed_across_a_deadline",
                "ticks_while_link_down", "heartbeats_after_a_skipped_tick", "chatter_frames",
                "initialised_after_init_gave_up", "two_clients_in_one_process", "application_version_requests",
                "tick_with_full_queue"]
SOAK = True   # also judged by the whole-run monitors of the soak sessions (vf/soak.py)
# (the instants this check judges are measured against non-eager task start-up: DESIGN 12)
EAGER_OK = False
BUDGET = {"quick": 100, "thorough": 1500}

N = 12
PROMPT, NEVER = 0.0, None


def predict(T0, I, W, pattern, horizon, outages=()):
    """Silence-clock model.  Returns (request_times, reset_times, tie).
    `outages` = [(t_down, t_up)]: intervals in which the link is down for a reason that has
    nothing to do with the heartbeat (peer closed, reconnect takes until t_up): a tick in an
    outage emits nothing, a deadline in an outage resets nothing and is re-armed, an answer
    still under way when the link drops is lost with its connection."""
    reqs, resets = [], []
    deadline = T0 + W
    epoch = 0
    pending = []  # (time, epoch)
    k = 0
    t_next_req = T0
    edges = sorted([(a, "down") for a, _ in outages] + [(b, "up") for _, b in outages])
    connected = True
    while True:
        cands = [("req", t_next_req), ("dl", deadline)]
        if pending:
            cands.append(("resp", min(p[0] for p in pending)))
        if edges:
            cands.append((edges[0][1], edges[0][0]))
        kind, t = min(cands, key=lambda c: (c[1], {"resp": 0, "req": 1, "dl": 2, "down": 3,
                                                   "up": 3}[c[0]]))
        if t > horizon:
            break
        same = [c for c in cands if abs(c[1] - t) < 1e-6]
        if len(same) > 1 and any(c[0] in ("down", "up") for c in same):
            if connected and {c[0] for c in same} == {"dl", "down"}:
                # the heartbeat's own reset - and the console is unreachable from then on:
                # the next period still counts from this reset
                resets.append(t)
                epoch += 1
                deadline = t + W
                edges.pop(0)
                connected = False
                continue
            return reqs, resets, t
        if kind in ("down", "up"):
            edges.pop(0)
            connected = kind == "up"
            if kind == "down":
                epoch += 1
            continue
        if not connected:
            if kind == "req":
                t_next_req += I
            elif kind == "dl":
                # what a deadline that expires while the link is down anyway should lead to
                # is not stated: judged only up to here
                return reqs, resets, t
            else:
                pending.remove(min(pending, key=lambda p: p[0]))
            continue
        if len(same) > 1 and any(c[0] == "dl" for c in same):
            # a deadline coinciding with anything else: order inside one instant is not decided
            if any(c[0] == "resp" and any(abs(p[0] - t) < 1e-6 and p[1] == epoch
                                          for p in pending) for c in same) or \
                    any(c[0] == "req" for c in same):
                return reqs, resets, t
        if kind == "req":
            reqs.append(t)
            d = pattern[k % len(pattern)] if k < len(pattern) else PROMPT
            k += 1
            if d is not NEVER:
                pending.append((t + d, epoch))
            t_next_req += I
        elif kind == "resp":
            p = min(pending, key=lambda p: p[0])
            pending.remove(p)
            if p[1] == epoch:
                deadline = t + W
        else:
            resets.append(t)
            epoch += 1
            deadline = t + W
    return reqs, resets, None


def cases(tier, seed):
    rnd = random.Random(f"C08/{tier}/{seed}")
    # anchor D6: never answered from the first heartbeat -> reset at T0+330 (and again)
    for gen in (4, 5):
        yield {"gen": gen, "mode": "api", "pattern": [None] * N, "anchor": "D6"}
        yield {"gen": gen, "mode": "api", "pattern": [0.0] * N}
        # hours of silence on a console that keeps accepting connections: the 30th reset comes
        # like the first
        # (the first answer one second late: deadlines at 331 + 330 k never coincide with a
        # tick at 300 m, so nothing is cut short at a tie)
        yield {"gen": gen, "mode": "api", "pattern": [1.0] + [None] * 34}
        yield {"gen": gen, "mode": "api", "pattern": [1.0] + [None] * 25 + [7.0, 0.5] + [None] * 25}
    kmax = 4 if tier == "quick" else 6
    for k in range(1, kmax + 1):
        for pat in itertools.product([0.0, 45.0, None], repeat=k):
            # the pattern describes heartbeats 2..k+1 after init (the one sent at start of
            # monitoring included); the rest are answered promptly
            for gen in ((4, 5) if k <= 3 or tier == "thorough" else (rnd.choice((4, 5)),)):
                yield {"gen": gen, "mode": "api", "pattern": list(pat) + [0.0] * (N - k)}
                if k <= 3:
                    yield {"gen": gen, "mode": "api", "pattern": list(pat) + [None] * (N - k)}
    n = 150 if tier == "quick" else 40000
    delays = [0.0, 0.0, 1.0, 29.0, 29.999, 30.001, 45.0, None, None]
    for i in range(n):
        yield {"gen": rnd.choice((4, 5)), "mode": "api",
               "pattern": [rnd.choice(delays) for _ in range(N)],
               "cycle": ("failed" if i % 6 == 0 else True) if i % 3 == 0 else False,
               "vary_version": i % 2 == 0, "chatter": i % 4 == 1}
    for gen in (4, 5):
        for pat in ([None] * N, [0.0] * N, [45.0, None, 0.0] * 4):
            yield {"gen": gen, "mode": "api", "pattern": pat, "cycle": True,
                   "vary_version": True}
            yield {"gen": gen, "mode": "api", "pattern": pat, "cycle": "failed"}
            if pat[0] is None:
                # the console is unreachable for a while right after the first timeout reset
                for n in (10, 35):
                    yield {"gen": gen, "mode": "api", "pattern": pat, "refuse_after_reset": n}
            # the console keeps sending other frames (status, error text, names, unknown
            # extended ids) while it does not answer heartbeats: only a console-version
            # response counts
            yield {"gen": gen, "mode": "api", "pattern": pat, "chatter": True}
            # the application's own update checks and commands in between
            if pat == [0.0] * N:
                yield {"gen": gen, "mode": "api", "pattern": pat,
                       "user_checks": [100.25, 299.5, 300.5, 450.0, 1000.75, 1199.0]}
                yield {"gen": gen, "mode": "api", "pattern": pat, "cycle": True,
                       "user_checks": [10.5, 610.25, 2000.5]}
            # initialised only after init() had given up (slow console)
            yield {"gen": gen, "mode": "api", "pattern": pat, "late_init": 1.0}
            yield {"gen": gen, "mode": "api", "pattern": pat, "late_init": 0.875, "cycle": True}
    # link outages that have nothing to do with the heartbeat (peer closes, the reconnect
    # takes `dur`), placed around heartbeat ticks; optionally 10 commands are queued while down
    shapes = [("tick_in_short_outage", -0.37, 1.0, 0), ("tick_in_long_outage", -0.37, 5.0, 0),
              ("tick_in_outage_full_queue", -14.63, 25.0, 10),
              ("tick_in_outage_some_queued", -14.63, 25.0, 4),
              ("outage_between_ticks", 100.13, 1.0, 0), ("outage_just_after_tick", 0.21, 3.0, 0),
              ("outage_ends_just_before_tick", -3.21, 3.0, 0)]
    for gen in (4, 5):
        for mode in ("api", "manager"):
            for name, off, dur, cmds in shapes:
                for k in ((1, 3) if tier == "quick" else (1, 2, 3, 5, 8)):
                    for pat in ([0.0] * N, [0.0, None, 0.0, 0.0, None, None] * 2):
                        c = {"gen": gen, "mode": mode, "pattern": pat, "shape": name,
                             "outages": [{"down": k * 300.0 + off, "dur": dur, "cmds": cmds,
                                          "cmd_off": 5.0, "how": "fin" if k % 2 else "rst"}]}
                        if mode == "manager":
                            c.update(interval=300.0, timeout=330.0)
                        yield c
    for i in range(40 if tier == "quick" else 8000):
        outs, t = [], 0.0
        for _ in range(rnd.randint(1, 3)):
            name, off, dur, cmds = rnd.choice(shapes)
            k = rnd.randint(1, 3)
            t += k * 300.0
            outs.append({"down": t + off + rnd.choice([0.0, 0.05, -0.11]), "dur": dur,
                         "cmds": cmds, "cmd_off": 5.0, "how": rnd.choice(["fin", "rst"])})
        c = {"gen": rnd.choice((4, 5)), "mode": rnd.choice(["api", "manager"]),
             "pattern": [rnd.choice([0.0, 0.0, 1.0, None, 45.0]) for _ in range(N)],
             "shape": "random", "outages": outs}
        if c["mode"] == "manager":
            c.update(interval=300.0, timeout=330.0)
        yield c
    for gen in (4, 5):
        for I, W, close_at, reopen_at in ((10.0, 13.0, 5.0, 20.0), (10.0, 13.0, 12.5, 13.5),
                                          (300.0, 330.0, 100.0, 700.0), (1.0, 1.3, 0.5, 5.0)):
            yield {"gen": gen, "mode": "manager", "k": "closed_window", "interval": I,
                   "timeout": W, "close_at": close_at, "reopen_at": reopen_at,
                   "pattern": [None]}
    # two clients alive at the same time (same or different generation), one of them possibly
    # shut down half-way
    for gens in ((5, 4), (4, 4), (5, 5)):
        for pats in (([0.0] * N, [0.0] * N), ([0.0] * N, [None] * N), ([None] * N, [0.0] * N),
                     ([45.0, None, 0.0] * 4, [0.0, None] * 6)):
            for sd in (None, 450.25):
                yield {"mode": "duo", "gens": list(gens), "patterns": [list(p) for p in pats],
                       "shutdown_first_at": sd}
    m = 60 if tier == "quick" else 15000
    for _ in range(m):
        I = rnd.choice([10.0, 60.0, 300.0, 7.5, 0.2, 0.75, 2.5, 3600.0])
        W = rnd.choice([I + 1.0, I * 1.5, I + 30.0, I * 0.5, 2 * I + 0.25])
        yield {"gen": rnd.choice((4, 5)), "mode": "manager", "interval": I, "timeout": W,
               "pattern": [rnd.choice([0.0, 0.0, W * 0.1, None, None, I * 0.9])
                           for _ in range(N)]}


async def drive_outages(loop, net, log, T0, outages, command):
    """Drop the link at T0+down (the reconnect takes `dur`), optionally submit commands."""
    for o in outages:
        await asyncio.sleep(T0 + o["down"] - loop.time())
        c = net.current()
        if c is None:
            log.add("SCRIPT.skipped", op="outage")
            continue
        net.script.append(("accept", o["dur"]))
        log.add("SCRIPT.outage", down=loop.time(), up=loop.time() + o["dur"])
        if o.get("how") == "rst":
            c.transport.peer_reset()
        else:
            c.transport.peer_eof()
        if o.get("cmds"):
            await asyncio.sleep(o["cmd_off"])
            for i in range(o["cmds"]):
                try:
                    await command(i)
                except Exception as e:  # noqa: BLE001
                    log.add("API.raise", name="command", exc=repr(e))


def outage_windows(log, m0, m1):
    return [(d["down"], d["up"]) for _, t, k, d in log.events[m0:m1] if k == "SCRIPT.outage"]


def observe(log, m0, m1):
    ev = log.events[m0:m1]
    reqs = [t for _, t, k, d in ev if k == "CON.frame"
            and d["cmd"]["kind"] == "version_request"]
    downs = [d["down"] for _, t, k, d in ev if k == "SCRIPT.outage"]
    downs = [a for a in downs if not any(k == "SCRIPT.outage" and abs(d["down"] - a) < 1e-6
                                         and d.get("after_reset") for _, t, k, d in ev)]
    closes = [t for _, t, k, d in ev if k == "NET.close" and not d["fault"]
              and not any(abs(t - a) < 1e-6 for a in downs)]
    opens = [t for _, t, k, d in ev if k == "NET.open"]
    return reqs, closes, opens


def compare(viol, obs, what, want_reqs, want_resets, reqs, closes, opens, info):
    def v(mech, **d):
        viol.append({"mechanism": mech, "detail": dict(info, **d)})

    def same(a, b):
        return len(a) == len(b) and all(abs(x - y) < 1e-6 for x, y in zip(a, b))

    if not same(want_reqs, reqs):
        missing = [t for t in want_reqs if not any(abs(t - x) < 1e-6 for x in reqs)]
        extra = [t for t in reqs if not any(abs(t - x) < 1e-6 for x in want_reqs)]
        v("heartbeat-requests-not-every-interval", missing=missing[:4], extra=extra[:4],
          seen=reqs[:8])
    if not same(want_resets, closes):
        missing = [t for t in want_resets if not any(abs(t - x) < 1e-6 for x in closes)]
        extra = [t for t in closes if not any(abs(t - x) < 1e-6 for x in want_resets)]
        if missing:
            v("no-reset-after-heartbeat-timeout", missing=missing[:4], resets_seen=closes[:6])
        if extra:
            v("reset-although-heartbeat-answered-in-time", extra=extra[:4],
              expected=want_resets[:6])
    else:
        for t in closes:
            up = (info.get("late_up") or {}).get(round(t, 6), t)
            if not any(abs(up - o) < 1e-6 for o in opens):
                v("no-reconnect-after-heartbeat-reset", at=t, expected_open=up)
        if want_resets:
            obs["timeout_resets_predicted_and_seen"] = len(want_resets)
            if len(want_resets) > 1:
                obs["reset_after_previous_reset"] = 1
        else:
            obs["all_answered_no_reset"] = 1
    obs["heartbeats_compared"] = len(want_reqs)


def note_outages(obs, case, wins, want_reqs, T0, I, tie, log, out):
    if not wins:
        return
    end = tie if tie is not None else out["end"]
    ticks = [T0 + k * I for k in range(max(N, len(case.get("pattern") or [])) + 1)
             if T0 + k * I < end]
    skipped = [t for t in ticks if any(a <= t < b for a, b in wins)]
    if skipped:
        obs["ticks_while_link_down"] = len(skipped)
        if any(t > max(skipped) for t in want_reqs):
            obs["heartbeats_after_a_skipped_tick"] = 1
    full = any(o.get("cmds", 0) >= 10 for o in case.get("outages") or [])
    if full and skipped:
        obs["tick_with_full_queue"] = 1
    obs["outage_runs"] = 1


def run_api(case):
    gen = case["gen"]
    pattern = case["pattern"]
    viol, obs = [], {}
    out = {}

    def answer(n, t):
        if n == 1:
            # the handshake's version request (as slow as the other steps of a slow console)
            return case.get("late_init", 0.0) if late[0] else 0.0
        i = n - 2
        return pattern[i] if i < len(pattern) else 0.0

    base_n = [0]
    late = [bool(case.get("late_init")) and not case.get("cycle")]

    def answer2(n, t):
        return answer(n - base_n[0], t)

    async def main(loop, net, log):
        w = AW.ApiWorld(gen, loop, net, log, knobs=C.Knobs(answer_heartbeat=answer2))
        if case.get("late_init") and not case.get("cycle"):
            w.console.knobs.latency = case["late_init"]
        if case.get("vary_version"):
            # every answer carries a different version / update flag (also a state change
            # for the API's own version handling)
            orig = w.console.frame_version

            def frame_version(pid=None):
                k = w.console.heartbeats
                w.inst["version"] = (k % 2 == 1, ["1.%d.%d" % (k % 3, k % 5)] + (
                    ["9.%d" % (k % 2)] if k % 4 == 0 else []))
                return orig(pid)
            w.console.frame_version = frame_version
        if case.get("cycle"):
            # an earlier init -> steady state -> shutdown on the same object
            if case["cycle"] == "failed":
                # ... or an init() that gave up against a silent console (nothing was ever
                # started), shut down before the console answers again
                w.console.knobs.silent_from = 0
                ok0 = await w.init()
                await asyncio.sleep(1.5)
                w.console.knobs.silent_from = None
            else:
                ok0 = await w.init()
                await asyncio.sleep(412.5)
            await w.at.shutdown()
            await asyncio.sleep(77.25)
            base_n[0] = w.console.heartbeats
            if case.get("late_init"):
                w.console.knobs.latency = case["late_init"]
                late[0] = True
        t_init = loop.time()
        ok = await w.init()
        if case.get("late_init"):
            # the console answers each of the six steps after `late_init` seconds: init()
            # gives up after 5 s (False), the handshake completes in the background and the
            # client turns initialised at t_init + 6 x late_init: monitoring starts then
            out["init_ret"] = ok
            await asyncio.sleep(t_init + 6 * case["late_init"] - 1e-3 - loop.time())
            late_mark = log.mark()
            await asyncio.sleep(t_init + 6 * case["late_init"] - loop.time())
            await quiesce(loop)
            ok = (ok is False) and w.at.initialised
            w.console.knobs.latency = 0.0
            late[0] = False
            obs["initialised_after_init_gave_up"] = 1 if ok else 0
        out["ok"] = ok
        out["T0"] = loop.time()
        out["m0"] = late_mark if case.get("late_init") else log.mark()
        chat = None
        if case.get("chatter"):
            async def chatter():
                con = w.console
                k = 0
                while True:
                    await asyncio.sleep(47.3)
                    c = net.current()
                    if c is None:
                        continue
                    k += 1
                    raw = [con.frame_ac_status, con.frame_zone_status,
                           lambda: con.frame_error(0), con.frame_names,
                           lambda: con.f_ext(0xFF77, b"\x01\x02"), con.frame_timer_status,
                           con.frame_unknown][k % 7]()
                    con.send(c, raw)
                    obs["chatter_frames"] = obs.get("chatter_frames", 0) + 1
            chat = loop.create_task(chatter())
        usr = None
        if case.get("user_checks"):
            # the application itself asks for the console version now and then (the public
            # update check) and sends ordinary commands: the periodic heartbeat is unaffected
            async def user():
                t_prev = 0.0
                for dt in case["user_checks"]:
                    await asyncio.sleep(dt - t_prev)
                    t_prev = dt
                    await w.at.check_for_updates()
                    await AW.commands(gen)["zone_on"][0](w)
            usr = loop.create_task(user())
        drv = None
        if case.get("outages"):
            table = AW.commands(gen)

            def command(i):
                return table[("zone_on", "zone_off", "ac_power_on")[i % 3]][0](w)
            drv = loop.create_task(drive_outages(loop, net, log, out["T0"], case["outages"],
                                                 command))
        if case.get("refuse_after_reset"):
            # the reconnection after the first heartbeat-timeout reset is refused n times (one
            # attempt at once, then one every 2 s)
            async def refuser():
                await asyncio.sleep(329.0)
                for _ in range(case["refuse_after_reset"]):
                    net.script.append(("refuse", 0.0))
                log.add("SCRIPT.outage", down=out["T0"] + 330.0, after_reset=True,
                        up=out["T0"] + 330.0 + 2.0 * case["refuse_after_reset"])
            loop.create_task(refuser())
        await asyncio.sleep(max(N, len(pattern)) * 300.0 + 10.0)
        out["end"] = loop.time()
        out["m1"] = log.mark()
        if drv is not None:
            await drv
        if chat is not None:
            chat.cancel()
        if usr is not None:
            usr.cancel()
        await w.at.shutdown()

    _, log, st = H.run(main)
    info = {"gen": gen, "pattern": pattern}
    if st != "ok" or out.get("ok") is not True:
        viol.append({"mechanism": "heartbeat-scenario-did-not-run", "detail": dict(info, st=st)})
        return viol, obs
    T0 = out["T0"]
    wins = outage_windows(log, out["m0"], out["m1"])
    want_reqs, want_resets, tie = predict(T0, 300.0, 330.0, pattern, out["end"], wins)
    reqs, closes, opens = observe(log, out["m0"], out["m1"])
    if case.get("refuse_after_reset"):
        info["late_up"] = {round(T0 + 330.0, 6): T0 + 330.0 + 2.0 * case["refuse_after_reset"]}
        if len(want_resets) > 1 and not viol:
            obs["reset_after_a_refused_reconnection"] = 1
    if case.get("user_checks"):
        # (all heartbeats are answered in these cases: the application's own version requests
        # simply appear in addition to the periodic ones)
        want_reqs = sorted(want_reqs + [T0 + dt for dt in case["user_checks"]
                                        if T0 + dt < out["end"]])
        obs["application_version_requests"] = len(case["user_checks"])
    if tie is not None:
        # judge only what happens strictly before the first undecided instant
        reqs, closes, opens = ([t for t in x if t < tie - 1e-6] for x in (reqs, closes, opens))
        obs["ties_truncated"] = 1
    compare(viol, obs, "api", want_reqs, want_resets, reqs, closes, opens, info)
    note_outages(obs, case, wins, want_reqs, T0, 300.0, tie, log, out)
    if all(p is None for p in pattern):
        obs["never_answered_from_start"] = 1
    if case.get("cycle") and not viol:
        obs["after_init_shutdown_cycle"] = 1
        if case["cycle"] == "failed":
            obs["after_a_failed_init_and_shutdown"] = 1
    for x in viol:
        x["log"] = H.log_slice(log, 30)
    return viol, obs


def run_duo(case):
    """Two clients alive in one process (each with its own console): what one of them does -
    including being shut down - must not change the heartbeat of the other."""
    viol, obs, out = [], {}, {}
    pats = case["patterns"]
    gens = case["gens"]

    async def main(loop, net, log):
        ws = []
        for i in (0, 1):
            pat = pats[i]

            def answer(n, t, pat=pat):
                if n == 1:
                    return 0.0
                j = n - 2
                return pat[j] if j < len(pat) else 0.0
            ws.append(AW.ApiWorld(gens[i], loop, net, log, knobs=C.Knobs(answer_heartbeat=answer),
                                  host=f"10.0.0.{i + 1}"))
        out["ok"], out["T0s"], out["m0s"] = [], [], []
        for w in ws:
            out["ok"].append(await w.init())
            out["T0s"].append(loop.time())
            out["m0s"].append(log.mark())
        sd = case.get("shutdown_first_at")
        if sd:
            await asyncio.sleep(sd)
            await ws[0].at.shutdown()
            out["sd_t"] = loop.time()
            await asyncio.sleep(N * 300.0 + 10.0 - sd)
        else:
            await asyncio.sleep(N * 300.0 + 10.0)
        out["end"] = loop.time()
        out["m1"] = log.mark()
        for i, w in enumerate(ws):
            if not (sd and i == 0):
                await w.at.shutdown()

    _, log, st = H.run(main)
    info = {"gens": gens, "patterns": pats, "shutdown_first_at": case.get("shutdown_first_at")}
    if st != "ok" or out.get("ok") != [True, True]:
        viol.append({"mechanism": "heartbeat-scenario-did-not-run", "detail": dict(info, st=st,
                                                                                   ok=out.get("ok"))})
        return viol, obs
    host_of = {d["conn"]: d["host"] for _, _, k, d in log.events if k == "NET.open"}
    for i in (0, 1):
        ev = log.events[out["m0s"][i]:out["m1"]]
        host = f"10.0.0.{i + 1}"
        end = out["sd_t"] - 1e-6 if (case.get("shutdown_first_at") and i == 0) else out["end"]
        want_reqs, want_resets, tie = predict(out["T0s"][i], 300.0, 330.0, pats[i], end)
        reqs = [t for _, t, k, d in ev if k == "CON.frame" and host_of.get(d["conn"]) == host
                and d["cmd"]["kind"] == "version_request" and t <= end]
        closes = [t for _, t, k, d in ev if k == "NET.close" and not d["fault"]
                  and host_of.get(d["conn"]) == host and t <= end]
        opens = [t for _, t, k, d in ev if k == "NET.open" and d["host"] == host]
        if tie is not None:
            reqs, closes, opens = ([t for t in x if t < tie - 1e-6] for x in (reqs, closes, opens))
        o2 = {}
        compare(viol, o2, "duo", want_reqs, want_resets, reqs, closes, opens,
                dict(info, client=i))
        obs["heartbeats_compared"] = obs.get("heartbeats_compared", 0) + o2.get(
            "heartbeats_compared", 0)
    obs["two_clients_in_one_process"] = 1
    for x in viol:
        x["log"] = H.log_slice(log, 30)
    return viol, obs


def run_closed_window(case):
    """A HeartbeatManager used directly on a socket: the application closes the socket without
    stopping the manager, a deadline falls into the closed window, the socket is opened again,
    and the console never answers a heartbeat. Bounded progress: within two time-out periods
    after the re-opening the silent link is reset and re-established."""
    gen = case["gen"]
    I, W = case["interval"], case["timeout"]
    viol, obs, out = [], {}, {}

    async def main(loop, net, log):
        w = SockWorld(gen, loop, net, log)
        await w.open()
        if gen == 4:
            import pyairtouch.at4.comms.x1F_ext as e
            import pyairtouch.at4.comms.x1FFF30_console_ver as ver
        else:
            import pyairtouch.at5.comms.x1F_ext as e
            import pyairtouch.at5.comms.x1FFF30_console_ver as ver

        def match(m):
            return isinstance(m, e.ExtendedMessage) and \
                m.sub_message.message_id == ver.MESSAGE_ID
        mgr = hb.HeartbeatManager(loop, w.sock, hb.HeartbeatConfig(
            message=e.ExtendedMessage(ver.ConsoleVersionRequest()), response_match=match,
            interval=I, timeout=W))
        t0 = loop.time()
        await mgr.start()
        await asyncio.sleep(case["close_at"])
        await w.sock.close()
        await asyncio.sleep(case["reopen_at"] - case["close_at"])
        m = log.mark()
        await w.sock.open_socket()
        await quiesce(loop)
        c1 = net.current()
        await asyncio.sleep(2.0 * W + 1.0)
        await quiesce(loop)
        ev = log.since(m)
        out["closes"] = [t - t0 for _, t, k, d in ev if k == "NET.close" and not d["fault"]]
        out["opens"] = [t - t0 for _, t, k, d in ev if k == "NET.open"]
        out["reconnected"] = net.current() is not None and net.current() is not c1
        out["c1"] = c1 is not None
        await mgr.stop()
        await w.close()

    _, log, st = H.run(main)
    info = {"gen": gen, "interval": I, "timeout": W, "close_at": case["close_at"],
            "reopen_at": case["reopen_at"]}
    if st != "ok" or not out.get("c1"):
        viol.append({"mechanism": "heartbeat-scenario-did-not-run", "detail": dict(info, st=st)})
    elif not out["closes"] or not out["reconnected"]:
        viol.append({"mechanism": "no-reset-after-heartbeat-timeout",
                     "detail": dict(info, resets_seen=out["closes"], opens=out["opens"],
                                    after="socket closed across a deadline and re-opened")})
    else:
        obs["reset_after_socket_closed_across_a_deadline"] = 1
    return viol, obs


def run_manager(case):
    if case.get("k") == "closed_window":
        return run_closed_window(case)
    gen = case["gen"]
    I, W, pattern = case["interval"], case["timeout"], case["pattern"]
    viol, obs = [], {}
    out = {}

    async def main(loop, net, log):
        w = SockWorld(gen, loop, net, log)
        count = [0]
        bufs = {}

        def on_data(conn, data):
            buf = bufs.setdefault(conn.id, bytearray())
            buf += data
            frames, rest, err = R.parse_stream(gen, bytes(buf))
            del buf[:len(buf) - len(rest)]
            for f in frames:
                cmd = R.read_command(f)
                log.add("CON.frame", conn=conn.id, cmd=cmd, raw=f.raw)
                if cmd["kind"] == "version_request":
                    i = count[0]
                    count[0] += 1
                    d = pattern[i] if i < len(pattern) else 0.0
                    if d is not None:
                        raw = R.frame(gen, R.ADDR_CLIENT, 0x90, f.pid, 0x1F, R.ext(
                            0xFF30, R.version_body(False, ["1.0"], "|" if gen == 4 else ",")))
                        loop.call_later(d, conn.transport.peer_data, raw) if d else \
                            conn.transport.peer_data(raw)
        net.on_data = on_data
        await w.open()
        if gen == 4:
            import pyairtouch.at4.comms.x1F_ext as e
            import pyairtouch.at4.comms.x1FFF30_console_ver as ver
        else:
            import pyairtouch.at5.comms.x1F_ext as e
            import pyairtouch.at5.comms.x1FFF30_console_ver as ver

        def match(m):
            return isinstance(m, e.ExtendedMessage) and \
                m.sub_message.message_id == ver.MESSAGE_ID
        import zlib
        if zlib.crc32(repr(case).encode()) % 2:
            cfg = hb.HeartbeatConfig(
                message=e.ExtendedMessage(ver.ConsoleVersionRequest()), response_match=match,
                interval=I, timeout=W)
        else:
            # (built positionally, in the documented order of its four fields)
            cfg = hb.HeartbeatConfig(e.ExtendedMessage(ver.ConsoleVersionRequest()), match,
                                     I, W)
            obs["config_built_positionally"] = 1
        mgr = hb.HeartbeatManager(loop, w.sock, cfg)
        out["T0"] = loop.time()
        out["m0"] = log.mark()
        await mgr.start()
        drv = None
        if case.get("outages"):
            from .. import sockscript as S
            import pyairtouch.comms.socket as psock

            def command(i):
                msg, _, _ = S.make_message(gen, ("zone_ctrl", "ac_ctrl")[i % 2], 5000 + i)
                return w.sock.send(msg, psock.RETRY_IDEMPOTENT)
            drv = loop.create_task(drive_outages(loop, net, log, out["T0"], case["outages"],
                                                 command))
        await asyncio.sleep(N * I + 1.0)
        out["end"] = loop.time()
        out["m1"] = log.mark()
        if drv is not None:
            await drv
        await mgr.stop()
        await w.close()

    _, log, st = H.run(main)
    info = {"gen": gen, "interval": I, "timeout": W, "pattern": pattern}
    if st != "ok":
        viol.append({"mechanism": "heartbeat-scenario-did-not-run", "detail": dict(info, st=st)})
        return viol, obs
    wins = outage_windows(log, out["m0"], out["m1"])
    want_reqs, want_resets, tie = predict(out["T0"], I, W, pattern, out["end"], wins)
    reqs, closes, opens = observe(log, out["m0"], out["m1"])
    if tie is not None:
        reqs, closes, opens = ([t for t in x if t < tie - 1e-6] for x in (reqs, closes, opens))
        obs["ties_truncated"] = 1
    compare(viol, obs, "manager", want_reqs, want_resets, reqs, closes, opens, info)
    note_outages(obs, case, wins, want_reqs, out["T0"], I, tie, log, out)
    obs["custom_configs"] = 1
    for x in viol:
        x["log"] = H.log_slice(log, 30)
    return viol, obs


def run_case(case):
    if case["mode"] == "duo":
        viol, obs = run_duo(case)
    else:
        viol, obs = run_api(case) if case["mode"] == "api" else run_manager(case)
    dec = 1 if obs.get("heartbeats_compared", 0) >= 3 else 0
    return {"violations": H.cap(viol), "evals": 1, "decided": dec, "obs": obs, "sample": case}
