"""C18 — discovery reports each answering console once, correctly, and terminates."""

from __future__ import annotations

import asyncio
import random

import pyairtouch

from .. import harness as H
from .. import refproto as R
from ..sockworld import quiesce

ID = "C18"
LEVEL = "exploration"
EXHAUSTIVE = {"quick": False, "thorough": False}
RULE = ("pyairtouch.discover() (broadcast and unicast) on the virtual-time loop with simulated "
        "UDP endpoints; datagram scripts: grammar-generated valid AT4/AT5 responses (fields "
        "with commas in the AT5 name, unicode, empty fields), mutations (dropped / duplicated "
        "part, swapped tag, truncation, wrong generation on a port), request echoes, invalid "
        "UTF-8 and random bytes, duplicates, delivered at instants on a 0.05 s grid over "
        "[0, 1.6] s incl. just before/after each request instant and after the search ended. "
        "Oracle: sendto payload/destination/port/instants (0, 0.5, 1.0 at most, none after the "
        "first interval with a valid response), return instant, the set of returned clients vs "
        "the reference grammar (host, serial, id, name, model) and the TCP port each client "
        "connects to (observed by init()). Non-trivial = discover() returned and every request "
        "instant and the result set were judged; distinct = distinct datagram scripts.")
ASSUMPTIONS = ["datagram arrival exactly at a request instant (tie) is not generated",
               "AT4 responses carry no name: the client's name is not judged",
               "an AT4 response whose id contains a comma: documents silent (undecided)"]
REQUIRED_OBS = ["searches_on_a_reused_discoverer", "searches_judged", "valid_responses_returned", "invalid_datagrams_ignored",
                "early_stop_after_response", "three_requests_no_answer", "duplicates_collapsed",
                "ports_observed", "unicast_mode", "name_with_comma",
                "os_errors_reported_during_a_search"]
BUDGET = {"quick": 100, "thorough": 1500}

REQ = {4: R.AT4_DISCOVERY_REQUEST, 5: R.AT5_DISCOVERY_REQUEST}
UPORT = {4: R.AT4_DISCOVERY_PORT, 5: R.AT5_DISCOVERY_PORT}
TPORT = {4: 9004, 5: 9005}
GRID = [round(0.05 * i, 2) for i in range(0, 33) if (i % 10) != 0] + \
       [0.001, 0.499, 0.501, 0.999, 1.001, 1.499, 1.501]


def valid_response(rnd, gen):
    host = rnd.choice(["192.168.1.%d" % rnd.randint(2, 250), "10.0.0.7", "at.local", "",
                       "10.1.2.3",   # (the address unicast searches are directed at)
                       # a host name that begins like the request of either model
                       "HF-A11ASSISTHREAD-0042", "::REQUEST-POLYAIRE-AIRTOUCH-DEVICE-INFO:;2",
                       # long ones: a fully qualified name, an IPv6 address written out
                       "console-living-room.home.example.org",
                       "fe80:0000:0000:0000:0202:b3ff:fe1e:8329"])
    serial = rnd.choice(["AA:BB:CC:%02X" % rnd.randint(0, 255), "C%d" % rnd.randint(1, 99), "",
                         "séri€", "S 1 ", "S\n2", "SN-" + "0123456789" * 5])
    aid = rnd.choice([str(rnd.randint(10000, 99999999)), "id-ü", ""])
    if gen == 4:
        return ",".join([host, serial, "AirTouch4", aid]).encode()
    name = rnd.choice(["Home", "My, House", "a,b,,c", "Büro", "", "AirTouch5", "x" * 40,
                       # text is text: line feeds, tabs, blanks at either end
                       "Line\nFeed", "Home\n", "\r\nHome", "tab\there", " padded ", "\n",
                       # the owner's choice of words is not the protocol's business
                       "Home,AirTouch5,Upstairs", ",AirTouch5,", "AirTouch4,1"])
    return ",".join([host, serial, "AirTouch5", aid, name]).encode()


def mutate(rnd, raw, gen):
    parts = raw.split(b",")
    k = rnd.choice(["drop", "dup", "swap_tag", "trunc", "tag_elsewhere", "case", "utf8"])
    if k == "drop" and len(parts) > 1:
        del parts[rnd.randrange(len(parts))]
    elif k == "dup":
        i = rnd.randrange(len(parts))
        parts.insert(i, parts[i])
    elif k == "swap_tag":
        parts = [p if p not in (b"AirTouch4", b"AirTouch5") else
                 (b"AirTouch5" if p == b"AirTouch4" else b"AirTouch4") for p in parts]
    elif k == "trunc":
        raw = raw[:rnd.randrange(1, len(raw))]
        return raw
    elif k == "tag_elsewhere":
        parts = [b"x"] + parts
    elif k == "case":
        parts = [p.lower() if p.startswith(b"AirTouch") else p for p in parts]
    elif k == "utf8":
        parts[rnd.randrange(len(parts))] = b"\xff\xfe" + parts[0]
    return b",".join(parts)


OS_ERRORS = {
    "unreach": lambda: OSError(101, "Network is unreachable"),
    "reset": lambda: ConnectionResetError(104, "Connection reset by peer"),
    "refused": lambda: ConnectionRefusedError(111, "Connection refused"),
    "perm": lambda: PermissionError(1, "Operation not permitted"),
}


def gen_script(rnd):
    n = rnd.choice([0, 1, 1, 2, 3, 5, 8])
    script = []
    for _ in range(n):
        gen = rnd.choice((4, 5))
        c = rnd.random()
        if c < 0.45:
            data = valid_response(rnd, gen)
        elif c < 0.7:
            data = mutate(rnd, valid_response(rnd, gen), gen)
        elif c < 0.8:
            data = REQ[gen]
        elif c < 0.9:
            data = rnd.randbytes(rnd.randint(0, 60))
        else:
            data = valid_response(rnd, 9 - gen)  # other generation's response on this port
        t = rnd.choice(GRID)
        script.append([t, gen, data, ["192.168.1.9", rnd.randint(1024, 65000)]])
        if c < 0.45 and rnd.random() < 0.2 and data.count(b",") >= 3:
            # the same console answering once more from its other interface: another address
            # field, everything else equal - another entry
            rest = data.split(b",", 1)[1]
            script.append([rnd.choice(GRID), gen, b"10.9.8.%d," % rnd.randint(2, 250) + rest,
                           ["10.9.8.7", rnd.randint(1024, 65000)]])
        if rnd.random() < 0.25:
            script.append([rnd.choice(GRID), gen, data, ["192.168.1.9", 5000]])  # duplicate
    return sorted(script, key=lambda x: x[0])


def cases(tier, seed):
    rnd = random.Random(f"C18/{tier}/{seed}")
    yield {"script": [], "unicast": None}
    yield {"script": [], "unicast": "10.1.2.3"}
    for gen in (4, 5):
        for t in (0.001, 0.499, 0.501, 0.999, 1.001, 1.499, 1.55):
            yield {"script": [[t, gen, valid_response(random.Random(t), gen), ["1.2.3.4", 9]]],
                   "unicast": None}
    # one console with two interfaces: two answers that differ in the address field only
    for gen in (4, 5):
        tail = (b"SER-1,AirTouch%d,12345678" % gen) + (b",Home" if gen == 5 else b"")
        yield {"script": [[0.1, gen, b"192.168.1.20," + tail, ["192.168.1.20", 49005]],
                          [0.2, gen, b"10.0.0.20," + tail, ["10.0.0.20", 49005]],
                          [0.3, gen, b"192.168.1.20," + tail, ["192.168.1.20", 49005]]],
               "unicast": None}
    # a unicast search: the addressed console answers with that very address, and again - or
    # another console does - later in the same interval
    for gen in (4, 5):
        tail = (b"SER-9,AirTouch%d,87654321" % gen) + (b",Flat" if gen == 5 else b"")
        for t1, t2 in ((0.01, 0.15), (0.2, 0.49), (0.6, 0.9)):
            yield {"script": [[t1, gen, b"10.1.2.3," + tail, ["10.1.2.3", 49005]],
                              [t2, gen, b"10.0.0.7," + tail, ["10.0.0.7", 49005]]],
                   "unicast": "10.1.2.3"}
            yield {"script": [[t1, gen, b"10.1.2.3," + tail, ["10.1.2.3", 49005]],
                              [t2, gen, b"10.1.2.3,SER-10," + tail.split(b",", 1)[1],
                               ["10.1.2.3", 49005]]],
                   "unicast": "10.1.2.3"}
    # some other task of the application holds the loop up for a while (a synchronous call):
    # requests go out late, but the wait after each of them is still a full interval
    for gen in (4, 5):
        resp = valid_response(random.Random(gen + 10), gen)
        for blocks, rt in (([[0.1, 1.2]], 2.15), ([[0.1, 1.2]], 1.5), ([[0.61, 0.7]], 1.6),
                           ([[0.1, 0.3], [0.7, 0.6]], 2.0), ([[1.1, 2.0]], None),
                           ([[0.1, 1.2]], None)):
            for uni in (None, "10.1.2.3"):
                yield {"script": [] if rt is None else [[rt, gen, resp, ["10.1.2.3", 49005]]],
                       "blocks": blocks, "unicast": uni}
    # a street of consoles: dozens of distinct valid answers of one model within one interval
    for gen in (4, 5):
        for count in (17, 40, 120):
            script = []
            for k in range(count):
                r2 = random.Random(f"many{gen}{count}{k}")
                host = "10.%d.%d.%d" % (r2.randint(0, 250), k // 250, k % 250)
                parts = [host, "SER-%04d" % k, "AirTouch%d" % gen, "%08d" % (100000 + k)]
                if gen == 5:
                    parts.append("House %d" % k)
                script.append([r2.choice([0.05, 0.2, 0.49]), gen, ",".join(parts).encode(),
                               [host, 49000 + gen]])
            yield {"script": sorted(script, key=lambda x: x[0]), "unicast": None}
    # the OS reports socket errors while the search runs (sendto() failing for the broadcast
    # address, an ICMP port unreachable from a host that is no console): they are no answers,
    # the search goes on and every console answering later is reported
    for gen in (4, 5):
        resp = valid_response(random.Random(gen), gen)
        for kind in sorted(OS_ERRORS):
            for et, rt, uni in ((1e-4, 0.7, None), (0.05, 0.2, "10.1.2.3"), (0.6, 1.2, None),
                                (0.3, None, "10.1.2.3")):
                yield {"script": [] if rt is None else [[rt, gen, resp, ["10.1.2.3", 49005]]],
                       "errors": [[et, gen, kind], [et + 0.01, 9 - gen, kind]], "unicast": uni}
    n = 400 if tier == "quick" else 200000
    for i in range(n):
        c = {"script": gen_script(rnd), "unicast": "10.1.2.3" if i % 4 == 0 else None}
        if i % 5 == 2:
            c["errors"] = [[rnd.choice([1e-4, 0.05, 0.3, 0.5001, 0.9, 1.2]), rnd.choice((4, 5)),
                            rnd.choice(sorted(OS_ERRORS))] for _ in range(rnd.randint(1, 3))]
        yield c
    # the public discoverer object used for several searches in a row
    for i in range(24 if tier == "quick" else 4000):
        rounds = [[rnd.choice([0.2, 0.7, 1.2])] * rnd.choice([0, 1, 1, 2])
                  for _ in range(rnd.randint(2, 4))]
        yield {"k": "reuse", "gen": rnd.choice((4, 5)), "seed": rnd.randrange(1 << 30),
               "rounds": rounds, "unicast": "10.1.2.3" if i % 3 == 0 else None}


def _wake(x, blocks):
    """When something due at x actually happens, given the intervals [b, b+d) during which the
    loop is held up by a synchronous call."""
    for b, d in blocks:
        if b <= x < b + d:
            return b + d
    return x


def predict(script, blocks=()):
    """Per discoverer: request instants, end instant, set of expected responses."""
    out = {}
    for g in (4, 5):
        mine = [(_wake(t, blocks), d) for t, port, d, a in script if port == g]
        sends = [0.0]
        end = None
        while end is None:
            # the wait that follows a request is relative to the moment it was sent
            boundary = _wake(sends[-1] + 0.5, blocks)
            got = any(t < boundary and _valid(g, d) is not None and _valid(g, d) is not R.UNDEC
                      for t, d in mine)
            undec = any(t < boundary and _valid(g, d) is R.UNDEC for t, d in mine) or \
                (blocks and any(t == boundary for t, d in mine))
            if undec and not got:
                sends = None
                break
            if got or len(sends) == 3:
                end = boundary
            else:
                sends.append(boundary)
        if sends is None:
            out[g] = None
            continue
        resp = set()
        undec = False
        for t, d in mine:
            if t < end:
                v = _valid(g, d)
                if v is R.UNDEC:
                    undec = True
                elif v is not None:
                    resp.add((v["host"], v["serial"], v["id"], v["name"]))
        out[g] = {"sends": sends, "end": end, "responses": resp, "undec": undec}
    return out


def _valid(g, data):
    v = R.discovery_response(data)
    if v is None or v is R.UNDEC:
        return v
    if v["model"] != g:
        return None
    return v


def run_reuse(case):
    """The public discoverer class used for several searches in a row: every search sends its
    own requests and reports the consoles that answer THAT search."""
    import pyairtouch.at4.comms.discovery as d4
    import pyairtouch.at5.comms.discovery as d5
    import pyairtouch.comms.discovery as cd
    g = case["gen"]
    rnd = random.Random(case["seed"])
    viol, obs, out = [], {}, {"rounds": []}

    async def main(loop, net, log):
        disc = cd.AirTouchDiscoverer(discovery_config=(d4 if g == 4 else d5).CONFIG,
                                     remote_host=case.get("unicast"))
        for k, answers in enumerate(case["rounds"]):
            t0 = loop.time()
            m = log.mark()
            datas = []
            for dt in answers:
                data = valid_response(rnd, g)
                datas.append(data)

                def deliver(data=data):
                    for tr in net.udp:
                        if getattr(tr.sock, "bound", (None, None))[1] == UPORT[g]:
                            tr.deliver(data, ("1.2.3.%d" % (10 + k), 9))
                loop.call_at(t0 + dt, deliver)
            r = await H.probe(log, "search", disc.search())
            sends = [t - t0 for _, t, kk, d in log.since(m) if kk == "UDP.sendto"]
            out["rounds"].append({"ret": r, "t": loop.time() - t0, "sends": sends,
                                  "datas": datas, "answers": answers})
            await asyncio.sleep(rnd.choice([0.0, 0.3, 2.0]))

    _, log, st = H.run(main)

    def v(mech, **d):
        viol.append({"mechanism": mech, "detail": dict(d, case=case), "log": H.log_slice(log, 30)})

    if st != "ok":
        v("discovery-does-not-terminate", status=st)
        return {"violations": viol, "evals": 1, "decided": 0, "obs": obs}
    for k, rd in enumerate(out["rounds"]):
        if isinstance(rd["ret"], Exception):
            v("discovery-raises", exc=repr(rd["ret"]), round=k)
            continue
        answers = rd["answers"]
        want_sends = [0.0]
        for b in (0.5, 1.0):
            if any(a < b for a in answers):
                break
            want_sends.append(b)
        want_end = want_sends[-1] + 0.5
        # (byte-identical datagrams are one response)
        uniq = {bytes(d) for d, a in zip(rd["datas"], answers) if a < want_end}
        want = sorted(R.discovery_response(d)["id"] for d in uniq)
        got = sorted(getattr(x, "airtouch_id", None) for x in rd["ret"])
        if [round(x, 6) for x in rd["sends"]] != want_sends:
            v("discovery-request-instants-wrong", round=k, sends=rd["sends"], want=want_sends)
        elif abs(rd["t"] - want_end) > 1e-6:
            v("discovery-returns-at-wrong-instant", round=k, at=rd["t"], want=want_end)
        elif got != want:
            v("answering-console-not-reported" if len(got) < len(want)
              else "entry-for-a-console-that-did-not-answer-this-search", round=k, got=got,
              want=want)
        else:
            obs["searches_on_a_reused_discoverer"] = obs.get(
                "searches_on_a_reused_discoverer", 0) + (1 if k else 0)
    n = len(out["rounds"])
    return {"violations": H.cap(viol), "evals": n, "decided": n, "distinct": n, "obs": obs,
            "sample": case}


def run_case(case):
    if case.get("k") == "reuse":
        return run_reuse(case)
    script = case["script"]
    viol, obs = [], {}
    out = {}

    async def main(loop, net, log):
        for t, g, data, addr in script:
            def deliver(g=g, data=data, addr=addr):
                for tr in net.udp:
                    if getattr(tr.sock, "bound", (None, None))[1] == UPORT[g]:
                        tr.deliver(data, tuple(addr))
            loop.call_at(t, deliver)
        for t, g, kind in case.get("errors", ()):
            def report(g=g, kind=kind):
                for tr in net.udp:
                    if getattr(tr.sock, "bound", (None, None))[1] == UPORT[g]:
                        tr.report_error(OS_ERRORS[kind]())
            loop.call_at(t, report)
        for b, d in case.get("blocks", ()):
            loop.call_at(b, loop.block, d)
        t0 = loop.time()
        r = await H.probe(log, "discover", pyairtouch.discover(case["unicast"]))
        out["ret_t"] = loop.time() - t0
        out["ret"] = r
        if isinstance(r, Exception):
            return
        await asyncio.sleep(2.0)   # late datagrams must not disturb anything
        out["clients"] = []
        net.default = ("refuse", 0.0)
        for at in r:
            m = log.mark()
            it = loop.create_task(at.init())
            await asyncio.sleep(0.01)
            att = [(d["host"], d["port"]) for _, _, k, d in log.since(m)
                   if k == "NET.connect_attempt"]
            out["clients"].append({"model": at.model.name, "host": at.host, "id": at.airtouch_id,
                                   "serial": at.serial, "name": at.name,
                                   "connects_to": att[0] if att else None})
            await at.shutdown()
            await it

    _, log, st = H.run(main)

    def v(mech, **d):
        viol.append({"mechanism": mech, "detail": dict(d, script=H.jsonable(script),
                                                       unicast=case["unicast"]),
                     "log": H.log_slice(log, 30)})

    if st != "ok":
        v("discovery-does-not-terminate", status=st)
        return {"violations": viol, "evals": 1, "decided": 1, "obs": obs}
    if isinstance(out.get("ret"), Exception):
        v("discovery-raises", exc=repr(out["ret"]))
        return {"violations": viol, "evals": 1, "decided": 1, "obs": obs}
    blocks = [tuple(x) for x in case.get("blocks", ())]
    pred = predict(script, blocks)
    sends = {4: [], 5: []}
    for _, t, k, d in log.events:
        if k in ("UDP.sendto", "UDP.sendto_closed"):
            g = 4 if d["data"] == REQ[4] else 5 if d["data"] == REQ[5] else None
            if g is None:
                v("discovery-request-payload-wrong", data=d["data"])
                continue
            want_addr = (case["unicast"] or "255.255.255.255", UPORT[g])
            if tuple(d["addr"]) != want_addr:
                v("discovery-request-destination-wrong", addr=d["addr"], want=want_addr)
            if d["port"] is None or d["port"][1] != UPORT[g]:
                v("discovery-socket-bound-to-wrong-port", bound=d["port"], gen=g)
            sends[g].append(t)
    if any(p is None or p["undec"] for p in pred.values()):
        return {"violations": H.cap(viol), "evals": 1, "decided": 0,
                "obs": {"undecided_scripts": 1}}
    for g in (4, 5):
        p = pred[g]
        if len(sends[g]) > 3:
            v("more-than-three-discovery-requests", gen=g, sends=sends[g])
        if [round(x, 9) for x in sends[g]] != [round(x, 9) for x in p["sends"]]:
            v("discovery-request-instants-wrong", gen=g, sends=sends[g], want=p["sends"])
        if len(p["sends"]) < 3:
            obs["early_stop_after_response"] = 1
        elif not p["responses"]:
            obs["three_requests_no_answer"] = 1
    want_end = max(pred[4]["end"], pred[5]["end"])
    if abs(out["ret_t"] - want_end) > 1e-6:
        v("discovery-returns-at-wrong-instant", at=out["ret_t"], want=want_end)
    want = {(g,) + r for g in (4, 5) for r in pred[g]["responses"]}
    got = []
    for c in out["clients"]:
        g = 4 if c["model"] == "AIRTOUCH_4" else 5
        got.append((g, c["host"], c["serial"], c["id"], c["name"] if g == 5 else None))
        if c["connects_to"] != (c["host"], TPORT[g]):
            v("returned-client-connects-to-wrong-address", client=c)
        else:
            obs["ports_observed"] = obs.get("ports_observed", 0) + 1
    if len(got) != len(set(got)):
        v("console-reported-more-than-once", got=got)
    if set(got) != want:
        missing = sorted(want - set(got), key=repr)
        extra = sorted(set(got) - want, key=repr)
        if missing:
            v("answering-console-not-reported", missing=missing[:3], got=got[:5])
        if extra:
            v("entry-for-datagram-that-is-no-valid-response", extra=extra[:3])
    else:
        obs["valid_responses_returned"] = len(want)
        if any(r[4] and "," in r[4] for r in want):
            obs["name_with_comma"] = 1
    n_valid = sum(1 for t, g, d, a in script if _valid(g, d) not in (None, R.UNDEC))
    n_inval = len(script) - n_valid
    if n_inval:
        obs["invalid_datagrams_ignored"] = n_inval
    if n_valid > len(want) and want:
        obs["duplicates_collapsed"] = 1
    if case["unicast"]:
        obs["unicast_mode"] = 1
    if blocks:
        obs["searches_with_the_loop_held_up"] = 1
    nerr = sum(1 for e in log.events if e[2] == "UDP.error")
    if nerr:
        obs["os_errors_reported_during_a_search"] = nerr
    if any(e[2] == "LOOP.unhandled" for e in log.events):
        obs["exception_reported_by_loop_for_bad_datagram"] = 1
    obs["searches_judged"] = 1
    return {"violations": H.cap(viol), "evals": 1, "decided": 1, "obs": obs,
            "sample": {"script": H.jsonable(script[:4]), "unicast": case["unicast"]}}
