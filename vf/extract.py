"""Turn the repository's decoded message objects into plain dicts shaped like
refproto's readings, and compare the two field by field (three-valued)."""

from __future__ import annotations

from . import refproto as R

NA, UNDEC = R.NA, R.UNDEC


def _low(e):
    return e.name.lower()


def _timer(t):
    return {"disabled": t.disabled, "hour": t.hour, "minute": t.minute}


_FAN5 = {"intelligent_auto_quiet": "ia_quiet", "intelligent_auto_low": "ia_low",
         "intelligent_auto_medium": "ia_medium", "intelligent_auto_high": "ia_high",
         "intelligent_auto_powerful": "ia_powerful", "intelligent_auto_turbo": "ia_turbo"}


def _modes(m):
    return {k.name.lower(): v for k, v in m.items() if k.name != "UNCHANGED"}


def extract(gen, msg):
    """Repo message object -> dict in refproto's shape (None stays None)."""
    n = type(msg).__name__
    if n in ("ExtendedMessage", "ControlStatusMessage"):
        return extract(gen, msg.sub_message)
    if n == "UnsupportedMessage":
        return {"unsupported": msg.unsupported_id, "body": bytes(msg.raw_data)}
    if n in ("GroupStatusRequest", "AcStatusRequest", "AcTimerStatusRequest",
             "ZoneStatusRequest", "ConsoleVersionRequest"):
        return {"request": True}
    if n in ("AcAbilityRequest",):
        return {"request": msg.ac_number}
    if n == "GroupNamesRequest":
        return {"request": msg.group_number}
    if n == "ZoneNamesRequest":
        return {"request": msg.zone_number}
    if n == "AcErrorInformationRequest":
        return {"request": msg.ac_number}
    if n == "GroupStatusMessage":
        return {"groups": [{
            "group": g.group_number, "power": _low(g.power_state),
            "control_method": _low(g.control_method), "damper": g.damper_percentage,
            "battery_low": g.battery_status.name == "LOW", "turbo_support": g.supports_turbo,
            "sensor": g.has_sensor, "temperature": g.temperature, "set_point": g.set_point,
            "spill": g.spill_active} for g in msg.groups]}
    if n == "ZoneStatusMessage":
        return {"zones": [{
            "zone": z.zone_number, "power": _low(z.power_state),
            "control_method": _low(z.control_method), "damper": z.damper_percentage,
            "set_point": z.set_point, "sensor": z.has_sensor, "temperature": z.temperature,
            "spill": z.spill_active, "battery_low": z.battery_status.name == "LOW"}
            for z in msg.zones]}
    if n == "AcStatusMessage":
        out = []
        for a in msg.ac_status:
            d = {"ac": a.ac_number, "power": _low(a.power_state), "mode": _low(a.mode),
                 "fan": _FAN5.get(_low(a.fan_speed), _low(a.fan_speed)),
                 "spill": a.spill_active, "timer": a.timer_set, "set_point": a.set_point,
                 "temperature": a.temperature, "error": a.error_code}
            if gen == 5:
                d["turbo"] = a.turbo_active
                d["bypass"] = a.bypass_active
            out.append(d)
        return {"acs": out}
    if n in ("AcTimerStatusMessage", "AcTimerControlMessage"):
        return {"timers": [{"ac": t.ac_number, "on": _timer(t.on_timer),
                            "off": _timer(t.off_timer)} for t in msg.ac_timer_status]}
    if n == "AcAbilityMessage":
        out = []
        for a in msg.ac_abilities:
            if gen == 4:
                out.append({"ac": a.ac_number, "name": a.ac_name, "start": a.start_group,
                            "count": a.group_count, "modes": _modes(a.ac_mode_support),
                            "fans": _modes(a.fan_speed_support), "min_sp": a.min_set_point,
                            "max_sp": a.max_set_point,
                            "groups": None if a.groups is None else set(a.groups)})
            else:
                out.append({"ac": a.ac_number, "name": a.ac_name, "start": a.start_zone,
                            "count": a.zone_count, "modes": _modes(a.ac_mode_support),
                            "fans": _modes(a.fan_speed_support),
                            "min_cool": a.min_cool_set_point, "max_cool": a.max_cool_set_point,
                            "min_heat": a.min_heat_set_point, "max_heat": a.max_heat_set_point})
        return {"abilities": out}
    if n == "GroupNamesMessage":
        return {"names": dict(msg.group_names)}
    if n == "ZoneNamesMessage":
        return {"names": dict(msg.zone_names)}
    if n == "AcErrorInformationMessage":
        return {"ac": msg.ac_number, "text": msg.error_info}
    if n == "ConsoleVersionMessage":
        return {"update": msg.update_available, "versions": list(msg.versions)}
    return {"other": repr(msg)}


def _eq(a, b):
    if isinstance(a, float) or isinstance(b, float):
        try:
            return abs(a - b) < 1e-9
        except TypeError:
            return False
    return a == b


def compare(ref, got, path=""):
    """Yield (path, kind, ref_value, got_value) for every disagreement.
    kind: 'na-as-value' | 'different' | 'shape'."""
    if ref is UNDEC:
        return
    if ref is NA:
        if got is not None:
            yield (path, "na-as-value", "NA", got)
        return
    if isinstance(ref, dict):
        if not isinstance(got, dict):
            yield (path, "shape", "dict", repr(got)[:80])
            return
        if ref and all(isinstance(k, int) for k in ref) or (
                not ref and path.endswith("names")):
            if set(ref) != set(got):
                yield (path, "different", sorted(ref), sorted(got))
                return
        if path.endswith(("modes", "fans")) and set(ref) != set(got):
            # a support map lists exactly the documented modes / speeds
            yield (path, "different", sorted(ref), sorted(got))
            return
        for k, rv in ref.items():
            if k not in got:
                continue  # reference-only helper keys (raw readings)
            yield from compare(rv, got[k], f"{path}.{k}" if path else str(k))
        return
    if isinstance(ref, list):
        if not isinstance(got, list) or len(got) != len(ref):
            yield (path, "shape", f"list[{len(ref)}]",
                   f"list[{len(got)}]" if isinstance(got, list) else repr(got)[:80])
            return
        for i, (r, g) in enumerate(zip(ref, got)):
            yield from compare(r, g, f"{path}[]")
        return
    if not _eq(ref, got):
        yield (path, "different", ref, got)


def same_shape(ref, got):
    """Top-level kind agreement (request vs status vs unknown)."""
    if ref is UNDEC or not isinstance(ref, dict):
        return True
    rk = set(ref) & {"request", "groups", "acs", "zones", "timers", "abilities", "names",
                     "ac", "update"}
    gk = set(got) & {"request", "groups", "acs", "zones", "timers", "abilities", "names",
                     "ac", "update"}
    if "unknown" in ref or "ext_unknown" in ref:
        return "unsupported" in got
    return rk == gk


def records_beyond_announced(gen, typ, payload, got):
    """AT5 0xC0: the number of records a decoded message carries beyond the repeat count the
    sub-header announces (0 if none / not applicable).  A decoder may be lenient about trailing
    bytes; it may not turn them into records the console never announced."""
    if gen != 5 or typ != 0xC0 or len(payload) < 8 or not isinstance(got, dict):
        return 0
    announced = (payload[6] << 8) | payload[7]
    for key in ("acs", "zones", "timers", "records"):
        if isinstance(got.get(key), (list, tuple)):
            return max(0, len(got[key]) - announced)
    return 0
