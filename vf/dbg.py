"""Ad-hoc: run all cases of a property in-process and summarise violations.
usage: python -m vf.dbg C03 quick 0 [max_cases]"""
import sys, collections, json
from . import runner, harness as H
pid, tier, seed = sys.argv[1], sys.argv[2], int(sys.argv[3])
mx = int(sys.argv[4]) if len(sys.argv) > 4 else 10**9
mod = runner.load_prop(pid)
by = collections.defaultdict(list)
n = 0
from vf.runner import all_cases, run_one
for i, c in enumerate(all_cases(mod, mod.ID, tier, seed)):
    if i >= mx: break
    r = run_one(mod, mod.ID, c)
    n += 1
    for v in r["violations"]:
        by[v["mechanism"]].append((c, v))
print("cases", n)
for m, l in by.items():
    print("==", m, len(l))
    seen = set()
    for c, v in l:
        d = json.dumps(H.jsonable(v.get("detail")))[:int(sys.argv[5]) if len(sys.argv) > 5 else 500]
        key = d[:120]
        if key in seen: continue
        seen.add(key)
        if len(seen) > 8: break
        print("   ", d)
