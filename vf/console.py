"""Stateful simulated AirTouch 4 / 5 console built on refproto only
(DESIGN.md §2.4).  Parses the client's bytes with the reference framing,
answers requests as the vendor documents prescribe, applies commands and
broadcasts the resulting status.  Every parsed client frame is logged as
`CON.frame` with its reference command reading.
"""

from __future__ import annotations

import collections
import copy

from . import refproto as R

STEPS = ["version_request", "names_request", "ability_request", "ac_status_request",
         "timer_status_request", "zone_status_request"]


def timer(disabled=True, hour=0, minute=0):
    return {"disabled": disabled, "hour": hour, "minute": minute}


def renumber_acs(inst, ids):
    """Give the air-conditioners of `inst` the AC numbers `ids` (numbers need not be
    contiguous nor start at 0)."""
    old = [a["status"]["ac"] for a in inst["acs"]]
    timers, errors = inst["timers"], inst["errors"]
    inst["timers"], inst["errors"] = {}, {}
    for a, o, n in zip(inst["acs"], old, ids):
        a["ability"]["ac"] = a["status"]["ac"] = n
        a["ability"]["name"] = f"AC{n}"
        if o in timers:
            inst["timers"][n] = timers[o]
        if o in errors:
            inst["errors"][n] = errors[o]
    return inst


def spread_zones(inst, gaps):
    """Leave `gaps[i]` unused zone / group numbers in front of the zones of the i-th
    air-conditioner (zone numbers need not be contiguous from 0)."""
    shift = 0
    mapping = {}
    for a, g in zip(inst["acs"], gaps):
        shift += g
        ab = a["ability"]
        for z in range(ab["start"], ab["start"] + ab["count"]):
            mapping[z] = z + shift
        ab["start"] += shift
        if ab.get("groups") is not None:
            ab["groups"] = {mapping.get(z, z) for z in ab["groups"]}
    for z in inst["zones"]:
        new = mapping.get(z["id"], z["id"])
        z["id"] = new
        for key in ("group", "zone"):
            if key in z["status"]:
                z["status"][key] = new
    return inst


def default_installation(gen, n_acs=1, zones_per_ac=(2,), new_format=True, names=None):
    """A plain installation.  zones_per_ac: contiguous partition."""
    inst = {"gen": gen, "version": (False, ["1.2.3"] if gen == 4 else ["1.0.3", "1.0.3"]),
            "acs": [], "zones": [], "errors": {}, "timers": {}}
    z = 0
    for a in range(n_acs):
        cnt = zones_per_ac[a] if a < len(zones_per_ac) else 0
        modes = {"auto": True, "heat": True, "dry": True, "fan": True, "cool": True}
        fans = {"auto": True, "quiet": False, "low": True, "medium": True, "high": True,
                "powerful": False, "turbo": False}
        if gen == 5:
            fans["intelligent_auto"] = True
        ab = {"ac": a, "name": f"AC{a}", "start": z, "count": cnt, "modes": modes,
              "fans": fans}
        if gen == 4:
            ab.update(min_sp=16, max_sp=30,
                      groups=set(range(z, z + cnt)) if new_format else None)
            st = {"ac": a, "power": "off", "mode_code": 4, "fan_code": 2, "spill": False,
                  "timer": False, "set_point": 24, "temp_raw11": 730, "error": 0}
        else:
            ab.update(min_cool=16, max_cool=30, min_heat=18, max_heat=32)
            st = {"ac": a, "power_code": 0, "mode_code": 4, "fan_code": 2, "sp_raw": 140,
                  "turbo": False, "bypass": False, "spill": False, "timer": False,
                  "temp_raw11": 730, "error": 0}
        inst["acs"].append({"ability": ab, "status": st})
        inst["timers"][a] = {"on": timer(), "off": timer()}
        for _ in range(cnt):
            nm = (names[z] if names and z < len(names) else f"Zone{z}")
            if gen == 4:
                zs = {"group": z, "power": "on", "control_method": "temperature",
                      "damper": 100, "battery_low": False, "turbo_support": True,
                      "set_point_raw": 22, "sensor": True, "temp_raw11": 720 + z,
                      "spill": False}
            else:
                zs = {"zone": z, "power": "on", "control_method": "temperature",
                      "damper": 100, "sp_raw": 120, "sensor": True,
                      "temp_raw11": 720 + z, "spill": False, "battery_low": False}
            inst["zones"].append({"id": z, "name": nm, "status": zs})
            z += 1
    return inst


class Knobs:
    """Hostility settings of the console."""

    def __init__(self, **kw):
        self.latency = 0.0            # answer latency (virtual seconds)
        self.silent_from = None       # index into STEPS from which no answers are given
        self.names_order = None       # callable(list of zones) -> the order they are listed in
        self.ability_order = None     # callable(list of ACs) -> the order they are listed in
        self.answer_gap = 0.0         # pause between a step's extra frames and its answer
        self.extra_when_silent = False  # the extra frames of a step are sent although unanswered
        self.silent_kinds = set()     # request kinds never answered
        self.segmenter = None         # bytes -> list[(delay_before, segment)]
        self.extra = None             # (step_kind, console) -> list[frame bytes] before answer
        self.apply_commands = True
        self.broadcast = True
        self.answer_heartbeat = None  # callable(n, t) -> None(no answer) | delay
        self.stride_zone = 8
        self.stride_ac = 10
        self.stride_timer = 9         # AT5 timer status record length (9 documented + extra)
        self.echo_zero_zones = True   # AT5: echo names / zone status request when no zones
        for k, v in kw.items():
            if not hasattr(self, k):
                raise TypeError(k)
            setattr(self, k, v)


class SimConsole:
    def __init__(self, net, inst, knobs=None, host=None):
        self.net = net
        self.loop = net.loop
        self.log = net.log
        self.inst = inst
        self.gen = inst["gen"]
        self.knobs = knobs or Knobs()
        self.bufs = {}
        self.outq = {}
        self.pumping = set()
        self.frames = []          # (t, conn id, Frame, cmd)
        self.heartbeats = 0
        self.requests_seen = collections.Counter()
        self.parse_errors = []
        self.pid = 0x40
        if host is None:
            net.on_open = self._on_open
            net.on_data = self._on_data
        else:
            # several consoles on one simulated network: connections are routed by host
            routes = net.__dict__.setdefault("console_routes", {})
            routes[host] = self

            def on_open(conn):
                con = routes.get(conn.host)
                if con is not None:
                    con._on_open(conn)

            def on_data(conn, data):
                con = routes.get(conn.host)
                if con is not None:
                    con._on_data(conn, data)
            net.on_open = on_open
            net.on_data = on_data

    # ------------------------------------------------------------- transport
    def _on_open(self, conn):
        self.bufs[conn.id] = bytearray()
        self.outq[conn.id] = collections.deque()

    def _on_data(self, conn, data):
        buf = self.bufs.setdefault(conn.id, bytearray())
        buf += data
        frames, rest, err = R.parse_stream(self.gen, bytes(buf))
        if err:
            self.parse_errors.append((self.loop.time(), conn.id, err, bytes(buf)))
            self.log.add("CON.parse_error", conn=conn.id, error=err, data=bytes(buf))
            buf.clear()
            return
        del buf[:len(buf) - len(rest)]
        for f in frames:
            try:
                cmd = R.read_command(f)
            except R.Reject as e:
                cmd = {"kind": "reject", "why": str(e)}
            self.frames.append((self.loop.time(), conn.id, f, cmd))
            self.log.add("CON.frame", conn=conn.id, raw=f.raw, crc_ok=f.crc_ok,
                         to=f.to, frm=f.frm, pid=f.pid, typ=f.typ, cmd=cmd)
            if f.crc_ok:
                self._handle(conn, f, cmd)

    def send(self, conn, raw, delay=0.0):
        """Queue one frame (bytes) for delivery on conn, after `delay`."""
        if conn is None:
            return
        q = self.outq.setdefault(conn.id, collections.deque())
        segs = self.knobs.segmenter(raw) if self.knobs.segmenter else [(0.0, raw)]
        first = True
        for d, s in segs:
            q.append((delay if (first and delay) else d, s))
            first = False
        self._pump(conn)

    def _pump(self, conn):
        if conn.id in self.pumping:
            return
        q = self.outq[conn.id]
        if not q:
            return
        self.pumping.add(conn.id)

        def step():
            while q:
                wait, seg = q[0]
                if wait:
                    q[0] = (0, seg)
                    if wait > 0:
                        self.loop.call_later(wait, step)
                    else:
                        self._after_turns(int(-wait), step)
                    return
                q.popleft()
                conn.transport.peer_data(seg)
            self.pumping.discard(conn.id)

        step()

    def _after_turns(self, n, cb):
        if n <= 0:
            cb()
        else:
            self.loop.call_soon(self._after_turns, n - 1, cb)

    def current(self):
        return self.net.current()

    # --------------------------------------------------------- frame builders
    def _pid(self):
        self.pid = (self.pid + 1) % 256
        return self.pid

    def f_ext(self, sid, body, pid=None, to=R.ADDR_CLIENT, frm=R.ADDR_CONSOLE_EXT):
        return R.frame(self.gen, to, frm, self._pid() if pid is None else pid, 0x1F,
                       R.ext(sid, body))

    def f_std(self, typ, data, pid=None, to=R.ADDR_CLIENT, frm=R.ADDR_CONSOLE):
        return R.frame(self.gen, to, frm, self._pid() if pid is None else pid, typ, data)

    def frame_version(self, pid=None):
        upd, vers = self.inst["version"]
        return self.f_ext(0xFF30, R.version_body(upd, vers, "|" if self.gen == 4 else ","),
                          pid)

    def frame_names(self, pid=None, only=None):
        zs = [z for z in self.inst["zones"] if only is None or z["id"] in only]
        if self.knobs.names_order is not None:
            # every entry carries its own zone number: any order is the same answer
            zs = self.knobs.names_order(zs)
        elif self.inst.get("names_key") is not None:
            # (an installation that lists its zones in some fixed other order)
            k = self.inst["names_key"]
            zs = sorted(zs, key=lambda z: (z["id"] * k) % 17)
        if self.gen == 4:
            body = b"".join(bytes([z["id"]]) + R._name_fixed(z["name"], 8, z.get("name_tail")) for z in zs)
            return self.f_ext(0xFF12, body, pid)
        body = b"".join(bytes([z["id"], len(z["name"].encode())]) + z["name"].encode()
                        for z in zs)
        return self.f_ext(0xFF13, body, pid)

    def frame_ability(self, pid=None):
        acs = list(self.inst["acs"])
        if self.knobs.ability_order is not None:
            # every record carries its own AC number: they may be listed in any order
            acs = self.knobs.ability_order(acs)
        if self.gen == 4:
            body = b"".join(R.b4_ability_record(a["ability"]) for a in acs)
        else:
            body = b"".join(R.b5_ability_record(a["ability"]) for a in acs)
        return self.f_ext(0xFF11, body, pid)

    def frame_ac_status(self, pid=None, only=None, **kw):
        acs = [a["status"] for a in self.inst["acs"] if only is None or a["status"]["ac"] in only]
        if self.gen == 4:
            return self.f_std(0x2D, b"".join(R.b4_ac_status_record(a) for a in acs), pid, **kw)
        st = self.knobs.stride_ac
        return self.f_std(0xC0, R.c0(0x23, st, [R.b5_ac_status_record(a, st) for a in acs]),
                          pid, **kw)

    def frame_zone_status(self, pid=None, only=None, **kw):
        zs = [z["status"] for z in self.inst["zones"] if only is None or z["id"] in only]
        ph = self.inst.get("phantom_zone")
        if ph is not None and only is None and zs:
            # a zone / group that was added at the console after the client had read the names:
            # reported first, ahead of the ones the client knows
            rec = dict(zs[0])
            rec["group" if "group" in rec else "zone"] = ph
            zs = [rec] + zs
        if self.gen == 4:
            return self.f_std(0x2B, b"".join(R.b4_group_status_record(z) for z in zs), pid,
                              **kw)
        st = self.knobs.stride_zone
        return self.f_std(0xC0, R.c0(0x21, st, [R.b5_zone_status_record(z, st) for z in zs]),
                          pid, **kw)

    def frame_timer_status(self, pid=None):
        tm = self.inst["timers"]
        if self.gen == 4:
            data = bytearray(32)
            for ac, t in tm.items():
                if 0 <= ac < 4:
                    data[8 * ac:8 * ac + 2] = R.timer_bytes(t["on"])
                    data[8 * ac + 2:8 * ac + 4] = R.timer_bytes(t["off"])
            return self.f_std(0x37, bytes(data), pid)
        st = self.knobs.stride_timer
        recs = [bytes([ac]) + R.timer_bytes(t["on"]) + R.timer_bytes(t["off"]) + b"\0" * 4
                + b"\x01" * (st - 9) for ac, t in sorted(tm.items())]
        return self.f_std(0xC0, R.c0(0x33, st, recs), pid)

    def frame_error(self, ac, pid=None):
        return self.f_ext(0xFF10, R.error_body(ac, self.inst["errors"].get(ac)), pid)

    def frame_unknown(self, typ=0x77, data=b"\x01\x02\x03"):
        return self.f_std(typ, data)

    # -------------------------------------------------------------- handling
    def _handle(self, conn, f, cmd):
        k = cmd["kind"]
        kn = self.knobs
        self.requests_seen[k] += 1
        if k in STEPS:
            idx = STEPS.index(k)
            if kn.silent_from is not None and idx >= kn.silent_from:
                # no answer; unrelated traffic may go on nevertheless
                if kn.extra is not None and kn.extra_when_silent:
                    for raw in kn.extra(k, self) or []:
                        self.send(conn, raw, kn.latency)
                return
        if k in kn.silent_kinds:
            return
        lat = kn.latency
        if k == "version_request":
            self.heartbeats += 1
            if kn.answer_heartbeat is not None:
                d = kn.answer_heartbeat(self.heartbeats, self.loop.time())
                if d is None:
                    return
                lat = d
        out = []
        if kn.extra is not None and k in STEPS:
            out.extend(kn.extra(k, self) or [])
        n_extra = len(out)
        zero_zones = not self.inst["zones"]
        if k == "version_request":
            out.append(self.frame_version(f.pid))
        elif k == "names_request":
            if zero_zones and self.gen == 5 and kn.echo_zero_zones:
                out.append(R.frame(5, R.ADDR_CLIENT, f.to, f.pid, f.typ, f.data))
            else:
                out.append(self.frame_names(f.pid, None if cmd["which"] == "ALL"
                                            else {cmd["which"]}))
        elif k == "ability_request":
            out.append(self.frame_ability(f.pid))
        elif k == "ac_status_request":
            out.append(self.frame_ac_status(f.pid))
        elif k == "timer_status_request":
            out.append(self.frame_timer_status(f.pid))
        elif k == "zone_status_request":
            if zero_zones and self.gen == 5 and kn.echo_zero_zones:
                out.append(R.frame(5, R.ADDR_CLIENT, f.to, f.pid, f.typ, f.data))
            else:
                out.append(self.frame_zone_status(f.pid))
        elif k == "error_request":
            out.append(self.frame_error(cmd["ac"], f.pid))
        elif kn.apply_commands:
            out.extend(self._apply(f, cmd))
        for i, raw in enumerate(out):
            d = lat if i == 0 else 0.0
            if i == n_extra and n_extra and kn.answer_gap:
                d += kn.answer_gap   # the extra frames arrive first, the answer a while later
            self.send(conn, raw, d)

    # command application (only what the workloads need: enough for the model
    # to move; C04/C11 judge the frames themselves, not this state machine)
    def _apply(self, f, cmd):
        k = cmd["kind"]
        g = self.gen
        out = []
        if k == "ac_control":
            recs = [cmd] if g == 4 else cmd["records"]
            touched = set()
            for r in recs:
                a = self._ac(r["ac"])
                if a is None:
                    continue
                st = a["status"]
                touched.add(r["ac"])
                p = r["power"]
                if g == 4:
                    cur_on = st["power"] == "on"
                    if p == "toggle":
                        st["power"] = "off" if cur_on else "on"
                    elif p in ("on", "off"):
                        st["power"] = p
                    if r["setpoint"] == "set":
                        st["set_point"] = r["setpoint_value"]
                    elif r["setpoint"] == "increase":
                        st["set_point"] = min(63, st["set_point"] + 1)
                    elif r["setpoint"] == "decrease":
                        st["set_point"] = max(0, st["set_point"] - 1)
                else:
                    code = st["power_code"]
                    if p == "toggle":
                        st["power_code"] = 0 if code in (1, 3) else 1
                    elif p == "on":
                        st["power_code"] = 1
                    elif p == "off":
                        st["power_code"] = 0
                    elif p == "away":
                        st["power_code"] = 2
                    elif p == "sleep":
                        st["power_code"] = 5
                    if r["setpoint"] == "set":
                        st["sp_raw"] = r["setpoint_value"]
                if r["mode"] != R.KEEP:
                    st["mode_code"] = {"auto": 0, "heat": 1, "dry": 2, "fan": 3,
                                       "cool": 4}[r["mode"]]
                if r["fan"] != R.KEEP:
                    st["fan_code"] = {"auto": 0, "quiet": 1, "low": 2, "medium": 3,
                                      "high": 4, "powerful": 5, "turbo": 6,
                                      "intelligent_auto": 11}[r["fan"]]
            if touched and self.knobs.broadcast:
                out.append(self.frame_ac_status())
        elif k == "zone_control":
            recs = [cmd] if g == 4 else cmd["records"]
            touched = set()
            for r in recs:
                z = self._zone(r["zone"])
                if z is None:
                    continue
                st = z["status"]
                touched.add(r["zone"])
                if r["power"] == "toggle":
                    st["power"] = "off" if st["power"] != "off" else "on"
                elif r["power"] in ("on", "off", "turbo"):
                    st["power"] = r["power"]
                if r["control_type"] in ("damper", "temperature"):
                    st["control_method"] = r["control_type"]
                elif r["control_type"] == "change":
                    st["control_method"] = ("damper" if st["control_method"] == "temperature"
                                            else "temperature")
                spk = "set_point_raw" if g == 4 else "sp_raw"
                if r["setting"] == "set_damper":
                    st["damper"] = r["value"] & 0x7F
                elif r["setting"] == "set_setpoint":
                    st[spk] = r["value"] & (0x3F if g == 4 else 0xFF)
                elif r["setting"] in ("increase", "decrease"):
                    d = 1 if r["setting"] == "increase" else -1
                    if st["control_method"] == "temperature":
                        st[spk] = max(0, st[spk] + d * (1 if g == 4 else 10))
                    else:
                        st["damper"] = max(0, min(100, st["damper"] + 5 * d))
            if touched and self.knobs.broadcast:
                out.append(self.frame_zone_status())
        elif k == "timer_control":
            if g == 4:
                for ac, t in cmd["timers"].items():
                    if ac in self.inst["timers"]:
                        self.inst["timers"][ac] = {"on": t["on"], "off": t["off"]}
            else:
                for r in cmd["records"]:
                    if r["ac"] in self.inst["timers"]:
                        self.inst["timers"][r["ac"]] = {"on": r["on"], "off": r["off"]}
            if self.knobs.broadcast:
                out.append(self.frame_timer_status())
        elif k == "quick_timer":
            pass
        return out

    def _ac(self, n):
        for a in self.inst["acs"]:
            if a["status"]["ac"] == n:
                return a
        return None

    def _zone(self, n):
        for z in self.inst["zones"]:
            if z["id"] == n:
                return z
        return None

    def snapshot(self):
        return copy.deepcopy(self.inst)

    def requests(self, since=0):
        """Kinds of request frames seen, in order."""
        return [(t, c, cmd["kind"]) for (t, c, f, cmd) in self.frames[since:]]
