"""Socket-level world: a real AirTouchSocket on SimNet with recording
subscribers, plus helpers shared by the receive/transmit-path monitors."""

from __future__ import annotations

import asyncio

from . import harness as H
from . import refproto as R


async def quiesce(loop, cap=20000):
    """Yield until nothing is runnable at the current virtual instant."""
    n = 0
    while True:
        await asyncio.sleep(0)
        n += 1
        if n > cap:
            # (a verdict of the virtual world, see simloop.Livelock: H.run reports status
            # 'livelock' and the check turns it into a violation, not a harness error)
            from .simloop import Livelock
            raise Livelock("quiesce: the loop never goes idle at virtual time "
                           f"{loop.time()} ({cap} turns)")
        if loop._ready:
            continue
        sch = loop._scheduled
        # a due timer, or a cancelled head (removed by the loop on its next
        # turn, it may hide a due timer behind it): take another turn
        if sch and (sch[0]._cancelled or sch[0]._when <= loop.time()):
            continue
        return n


class SockWorld:
    def __init__(self, gen, loop, net, log, host="10.0.0.1"):
        self.gen = gen
        self.loop, self.net, self.log = loop, net, log
        self.sock = H.new_socket(gen, loop, host)
        self.msgs = []        # (conn id at delivery time, header, message)
        self.conn_events = []  # (t, connected)
        self.raise_in_msg_sub = False
        self.raise_in_conn_sub = False
        self.on_connect_hooks = []
        self.on_disconnect_hooks = []
        self.conn_delays = []     # a connection subscriber that takes its time on connected=True
        self.msg_delays = []
        self.descs = []
        self.mutate_msgs = False
        self.sock.subscribe_on_message_received(self._on_msg)
        self.sock.subscribe_on_connection_changed(self._on_conn)

    def add_odd_subscribers(self):
        """Subscribers that are plain functions returning awaitables other than coroutines
        (a Future resolved a turn later, asyncio.gather(...), an object with __await__) - all
        legal for Callable[..., Awaitable[None]]."""
        loop = self.loop

        def conn_future(*, connected):
            f = loop.create_future()
            loop.call_soon(f.set_result, None)
            self.log.add("SUB.odd", what="future", connected=connected)
            return f

        def msg_gather(hdr, msg):
            self.log.add("SUB.odd", what="gather")
            return asyncio.gather(asyncio.sleep(0), asyncio.sleep(0))

        class Aw:
            def __await__(self):
                return asyncio.sleep(0).__await__()

        def conn_custom(*, connected):
            return Aw()

        def msg_task(hdr, msg):
            return loop.create_task(asyncio.sleep(0))

        self._odd = [conn_future, msg_gather, conn_custom, msg_task]   # keep references
        self.sock.subscribe_on_connection_changed(conn_future)
        self.sock.subscribe_on_connection_changed(conn_custom)
        self.sock.subscribe_on_message_received(msg_gather)
        self.sock.subscribe_on_message_received(msg_task)

    def add_sync_raising_subscribers(self, which):
        """A subscriber that fails when it is CALLED (a plain function raising instead of
        returning an awaitable, e.g. one with a bug or a wrong signature), in addition to the
        recording ones."""
        def bad_msg(hdr, msg):
            self.log.add("SUB.sync_raise", what="msg")
            raise RuntimeError("message subscriber fails when called")

        def bad_conn(*, connected):
            self.log.add("SUB.sync_raise", what="conn")
            raise RuntimeError("connection subscriber fails when called")

        self._bad = getattr(self, "_bad", []) + [bad_msg, bad_conn]
        if which in ("msg", "both"):
            self.sock.subscribe_on_message_received(bad_msg)
        if which in ("conn", "both"):
            self.sock.subscribe_on_connection_changed(bad_conn)

    async def _on_msg(self, hdr, msg):
        if getattr(self, "msg_gate", None) is not None:
            await self.msg_gate()
        if self.msg_delays:
            # a subscriber that takes its time (records when it has finished)
            d = self.msg_delays.pop(0)
            if d:
                self.log.add("SUB.msg_slow", delay=d)
                await asyncio.sleep(d)
            else:
                await asyncio.sleep(0)
        cur = self.net.current()
        self.msgs.append((cur.id if cur else None, hdr, msg))
        self.descs.append(describe(hdr, msg))     # as delivered, at this very moment
        self.log.add("SUB.msg", hdr=repr(hdr), msg=repr(msg))
        if self.mutate_msgs:
            # an application that works on the objects it is handed (filters a list,
            # rounds a value): they are its own
            _scramble(msg)
            _scramble(hdr)
        if self.raise_in_msg_sub == 2:
            fut = self.loop.create_future()   # (see harness.Sub: raises == "cancelled")
            fut.cancel()
            await fut
        if self.raise_in_msg_sub:
            raise RuntimeError("message subscriber fails")

    async def _on_conn(self, *, connected):
        self.conn_events.append((self.loop.time(), connected))
        self.log.add("SUB.conn", connected=connected)
        if connected and self.conn_delays:
            d = self.conn_delays.pop(0)
            self.log.add("SUB.conn_slow", delay=d)
            await asyncio.sleep(d)
        if connected and self.on_connect_hooks:
            hooks, self.on_connect_hooks = self.on_connect_hooks, []
            for h in hooks:
                await h()
        if not connected and self.on_disconnect_hooks:
            hooks, self.on_disconnect_hooks = self.on_disconnect_hooks, []
            for h in hooks:
                await h()
        if self.raise_in_conn_sub == 2:
            fut = self.loop.create_future()
            fut.cancel()
            await fut
        if self.raise_in_conn_sub:
            raise RuntimeError("connection subscriber fails")

    async def open(self):
        await self.sock.open_socket()
        await quiesce(self.loop)

    async def close(self):
        await self.sock.close()
        await quiesce(self.loop)


def _scramble(obj, depth=0):
    """Change a (dataclass) message object in place, every field."""
    import dataclasses
    if depth > 4 or not dataclasses.is_dataclass(obj) or isinstance(obj, type):
        return
    for f in dataclasses.fields(obj):
        try:
            v = getattr(obj, f.name)
            if dataclasses.is_dataclass(v) and not isinstance(v, type):
                _scramble(v, depth + 1)
            elif isinstance(v, list):
                for x in v:
                    _scramble(x, depth + 1)
                del v[len(v) // 2:]
            elif isinstance(v, dict):
                v.clear()
            elif isinstance(v, bool):
                setattr(obj, f.name, not v)
            elif isinstance(v, (int, float)):
                setattr(obj, f.name, 0)
            elif isinstance(v, str):
                setattr(obj, f.name, "edited by the application")
            elif isinstance(v, (bytes, bytearray)):
                setattr(obj, f.name, b"")
        except Exception:  # noqa: BLE001  (frozen / read-only fields stay as they are)
            pass


def describe(hdr, msg):
    """Comparable description of a delivery (dataclass reprs are complete)."""
    return (repr(hdr), repr(msg))


_BASELINE = {}


def baseline_delivery(gen, raw):
    """What the real receive path delivers for one intact frame `raw`
    (None if it delivers nothing / resets)."""
    key = (gen, bytes(raw))
    if key in _BASELINE:
        return _BASELINE[key]

    async def main(loop, net, log):
        w = SockWorld(gen, loop, net, log)
        await w.open()
        c = net.current()
        c.transport.peer_data(raw)
        await quiesce(loop)
        ok = c.open and len(w.msgs) == 1
        out = describe(w.msgs[0][1], w.msgs[0][2]) if ok else None
        await w.close()
        return out

    (out), log, st = H.run(main)
    _BASELINE[key] = out
    return out


def good_prefix_frames(gen, stream):
    """Reference view of a console->client byte stream: the frames a receiver
    must accept before the first structural/CRC error, and whether an error
    (requiring a reset) occurs at all within `stream`."""
    frames, rest, err = R.parse_stream(gen, stream)
    good = []
    for f in frames:
        if not f.crc_ok:
            return good, True, f.start
        good.append(f)
    return good, err is not None, (len(stream) - len(rest))
