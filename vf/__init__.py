"""Runtime-monitoring framework for pyairtouch (see /verif/DESIGN.md)."""
