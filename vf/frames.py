"""Catalogue of well-formed console->client frames of every kind, built with the
reference codec only (used by the receive-path workloads C06/C13/C17)."""

from __future__ import annotations

from . import refproto as R

TO, STD, EXT = R.ADDR_CLIENT, R.ADDR_CONSOLE, R.ADDR_CONSOLE_EXT


def _g4(group, **kw):
    d = {"group": group, "power": "on", "control_method": "temperature", "damper": 80,
         "battery_low": False, "turbo_support": True, "set_point_raw": 23, "sensor": True,
         "temp_raw11": 735, "spill": False}
    d.update(kw)
    return d


def _a4(ac, **kw):
    d = {"ac": ac, "power": "on", "mode_code": 4, "fan_code": 3, "spill": False,
         "timer": True, "set_point": 24, "temp_raw11": 741, "error": 0}
    d.update(kw)
    return d


def _z5(zone, **kw):
    d = {"zone": zone, "power": "on", "control_method": "temperature", "damper": 70,
         "sp_raw": 130, "sensor": True, "temp_raw11": 733, "spill": False,
         "battery_low": False}
    d.update(kw)
    return d


def _a5(ac, **kw):
    d = {"ac": ac, "power_code": 1, "mode_code": 1, "fan_code": 11, "sp_raw": 120,
         "turbo": False, "bypass": False, "spill": True, "timer": False,
         "temp_raw11": 722, "error": 0}
    d.update(kw)
    return d


_MODES = {"auto": True, "heat": True, "dry": False, "fan": True, "cool": True}
_FANS = {"auto": True, "quiet": False, "low": True, "medium": True, "high": True,
         "powerful": False, "turbo": True, "intelligent_auto": True}


def catalogue(gen, pid0=1):
    """name -> raw frame bytes."""
    pid = [pid0]

    def nx():
        pid[0] = (pid[0] + 1) % 256
        return pid[0]

    out = {}
    if gen == 4:
        out["group_status"] = R.frame(4, TO, STD, nx(), 0x2B, b"".join(
            R.b4_group_status_record(g) for g in (_g4(0), _g4(1, power="turbo", sensor=False,
                                                              temp_raw11=None))))
        out["ac_status"] = R.frame(4, TO, STD, nx(), 0x2D, b"".join(
            R.b4_ac_status_record(a) for a in (_a4(0), _a4(1, power="off", error=0x1234))))
        out["ability"] = R.frame(4, TO, EXT, nx(), 0x1F, R.ext(0xFF11, R.b4_ability_record(
            {"ac": 0, "name": "Daikin", "start": 0, "count": 2, "modes": _MODES, "fans": _FANS,
             "min_sp": 16, "max_sp": 31, "groups": {0, 1}})))
        out["ability_old"] = R.frame(4, TO, EXT, nx(), 0x1F, R.ext(0xFF11, R.b4_ability_record(
            {"ac": 0, "name": "Old", "start": 0, "count": 2, "modes": _MODES, "fans": _FANS,
             "min_sp": 16, "max_sp": 31, "groups": None})))
        out["names"] = R.frame(4, TO, EXT, nx(), 0x1F, R.ext(
            0xFF12, b"\x00" + R._name_fixed("Living", 8) + b"\x01" + R._name_fixed("Küche", 8)))
        out["version"] = R.frame(4, TO, EXT, nx(), 0x1F, R.ext(
            0xFF30, R.version_body(True, ["1.3.3", "1.3.2"], "|")))
        out["error"] = R.frame(4, TO, EXT, nx(), 0x1F, R.ext(0xFF10, R.error_body(1, "ER: FFFE")))
        t = bytearray(32)
        t[0:4] = R.timer_bytes({"disabled": False, "hour": 7, "minute": 30}) + \
            R.timer_bytes({"disabled": True, "hour": 0, "minute": 0})
        out["timer_status"] = R.frame(4, TO, STD, nx(), 0x37, bytes(t))
        out["unknown_type"] = R.frame(4, TO, STD, nx(), 0x77, b"\x01\x02\x03\x04\x05")
        out["unknown_ext"] = R.frame(4, TO, EXT, nx(), 0x1F, R.ext(0xFF77, b"\xaa\xbb"))
    else:
        out["zone_status"] = R.frame(5, TO, STD, nx(), 0xC0, R.c0(0x21, 8, [
            R.b5_zone_status_record(_z5(0)),
            R.b5_zone_status_record(_z5(1, power="off", sensor=False, sp_raw=0xFF,
                                        temp_raw11=0x7FF))]))
        out["ac_status"] = R.frame(5, TO, STD, nx(), 0xC0, R.c0(0x23, 10, [
            R.b5_ac_status_record(_a5(0)), R.b5_ac_status_record(_a5(1, power_code=5,
                                                                     error=77))]))
        out["ac_status_8"] = R.frame(5, TO, STD, nx(), 0xC0, R.c0(0x23, 8, [
            R.b5_ac_status_record(_a5(0), 8)]))
        out["ability"] = R.frame(5, TO, EXT, nx(), 0x1F, R.ext(0xFF11, R.b5_ability_record(
            {"ac": 0, "name": "Fujitsu", "start": 0, "count": 2, "modes": _MODES, "fans": _FANS,
             "min_cool": 16, "max_cool": 30, "min_heat": 18, "max_heat": 31})))
        out["names"] = R.frame(5, TO, EXT, nx(), 0x1F, R.ext(
            0xFF13, b"\x00\x06Living" + bytes([1, len("Büro".encode())]) + "Büro".encode()))
        out["version"] = R.frame(5, TO, EXT, nx(), 0x1F, R.ext(
            0xFF30, R.version_body(False, ["1.0.3", "1.0.3"], ",")))
        out["error"] = R.frame(5, TO, EXT, nx(), 0x1F, R.ext(0xFF10, R.error_body(0, "ER: 12")))
        out["timer_status"] = R.frame(5, TO, STD, nx(), 0xC0, R.c0(0x33, 9, [
            b"\x00" + R.timer_bytes({"disabled": False, "hour": 22, "minute": 5})
            + R.timer_bytes({"disabled": True, "hour": 0, "minute": 0}) + b"\0" * 4]))
        out["unknown_type"] = R.frame(5, TO, STD, nx(), 0x77, b"\x01\x02\x03\x04\x05")
        out["unknown_c0"] = R.frame(5, TO, STD, nx(), 0xC0, R.c0(0x55, 3, [b"abc", b"def"],
                                                                 normal=b"\x09"))
        out["unknown_ext"] = R.frame(5, TO, EXT, nx(), 0x1F, R.ext(0xFF77, b"\xaa\xbb"))
    return out


def probe_frame(gen, pid):
    """A short intact frame with a recognisable packet id."""
    if gen == 4:
        return R.frame(4, TO, EXT, pid & 0xFF, 0x1F, R.ext(0xFF30, R.version_body(
            False, ["9.9"], "|")))
    return R.frame(5, TO, EXT, pid & 0xFF, 0x1F, R.ext(0xFF30, R.version_body(
        False, ["9.9"], ",")))


def covered_span(gen, raw):
    """(start, end) byte offsets of the CRC-covered bytes plus the check bytes."""
    start = 2 if gen == 4 else 14
    return start, len(raw)


# ------------------------------------------------- random decodable frames

def _rtimer(rnd):
    return {"disabled": rnd.random() < 0.5, "hour": rnd.randint(0, 23),
            "minute": rnd.randint(0, 59)}


def _rname(rnd, n):
    s = rnd.choice(["Living", "Küche", "Büro", "Z", "", "Bed 1", "寝室", "Master", "x" * n, "UUU",
                    "U" * n, "Cafe\u0301", "\u2126 room",
                    # a zero-width no-break space is a character like any other
                    "\ufeffLounge", "\ufeff"])
    while len(s.encode()) > n:
        s = s[:-1]
    return s


def _rtail(rnd):
    """What may be left behind the terminator of a fixed-width name (mostly nothing)."""
    return rnd.choice([None, None, None, b"\xff", b"old name", b"\xc3", b"\xe2\x82"])


def _rmodes(rnd):
    return {k: rnd.random() < 0.7 for k in ("auto", "heat", "dry", "fan", "cool")}


def _rfans(rnd):
    return {k: rnd.random() < 0.7 for k in ("auto", "quiet", "low", "medium", "high",
                                            "powerful", "turbo", "intelligent_auto")}


def _rtemp(rnd):
    return rnd.choice([rnd.randint(0, 2000), rnd.randint(0, 2047), 500, 0, 2000, 2001, 2047])


def random_status_frame(gen, rnd, pid=None):
    """(kind, raw): a well-formed console->client frame with defined enum codes
    and otherwise random field values (incl. sentinels)."""
    pid = rnd.randint(0, 255) if pid is None else pid
    if gen == 4:
        k = rnd.choice(["group_status", "ac_status", "ability", "names", "version", "error",
                        "timer_status"])
        if k == "group_status":
            recs = [R.b4_group_status_record(_g4(
                rnd.randint(0, 15), power=rnd.choice(["off", "on", "turbo"]),
                control_method=rnd.choice(["temperature", "damper"]),
                damper=rnd.randint(0, 127), battery_low=rnd.random() < 0.5,
                turbo_support=rnd.random() < 0.5, set_point_raw=rnd.randint(0, 63),
                sensor=rnd.random() < 0.7,
                temp_raw11=rnd.choice([None, _rtemp(rnd), _rtemp(rnd)]),
                spill=rnd.random() < 0.5)) for _ in range(rnd.randint(1, 6))]
            return k, R.frame(4, TO, STD, pid, 0x2B, b"".join(recs))
        if k == "ac_status":
            recs = [R.b4_ac_status_record(_a4(
                rnd.randint(0, 3), power=rnd.choice(["off", "on"]),
                mode_code=rnd.choice([0, 1, 2, 3, 4, 8, 9]), fan_code=rnd.randint(0, 6),
                spill=rnd.random() < 0.5, timer=rnd.random() < 0.5,
                set_point=rnd.randint(0, 63), temp_raw11=rnd.choice([None, _rtemp(rnd)]),
                error=rnd.choice([0, 0, rnd.randint(0, 65535)])))
                for _ in range(rnd.randint(1, 4))]
            return k, R.frame(4, TO, STD, pid, 0x2D, b"".join(recs))
        if k == "ability":
            recs = [R.b4_ability_record(
                {"ac": a, "name": _rname(rnd, 16), "name_tail": _rtail(rnd),
                 "start": rnd.randint(0, 15),
                 "count": rnd.randint(0, 16), "modes": _rmodes(rnd), "fans": _rfans(rnd),
                 "min_sp": rnd.randint(0, 255), "max_sp": rnd.randint(0, 255),
                 "groups": rnd.choice([None, {g for g in range(16) if rnd.random() < 0.4}])})
                for a in range(rnd.randint(1, 4))]
            return k, R.frame(4, TO, EXT, pid, 0x1F, R.ext(0xFF11, b"".join(recs)))
        if k == "names":
            gs = rnd.sample(range(16), rnd.randint(1, 8))
            return k, R.frame(4, TO, EXT, pid, 0x1F, R.ext(0xFF12, b"".join(
                bytes([g]) + R._name_fixed(_rname(rnd, 8), 8, _rtail(rnd)) for g in gs)))
        if k == "version":
            return k, R.frame(4, TO, EXT, pid, 0x1F, R.ext(0xFF30, R.version_body(
                rnd.random() < 0.5, rnd.choice([["1.3.3"], ["1.3.3", "1.3.2"], ["2"],
                                                # the length is one unsigned byte: up to 255
                                                ["1.2.4-beta.20240131"] * 7,
                                                ["9" * 127, "8" * 127]]), "|")))
        if k == "error":
            return k, R.frame(4, TO, EXT, pid, 0x1F, R.ext(0xFF10, R.error_body(
                rnd.randint(0, 3), rnd.choice([None, "ER: FFFE", "E1"]))))
        t = bytearray(32)
        for a in range(4):
            t[8 * a:8 * a + 4] = R.timer_bytes(_rtimer(rnd)) + R.timer_bytes(_rtimer(rnd))
        return k, R.frame(4, TO, STD, pid, 0x37, bytes(t))
    k = rnd.choice(["zone_status", "ac_status", "ability", "names", "version", "error",
                    "timer_status"])
    if k == "zone_status":
        st = rnd.choice([8, 8, 8, 9, 10, 14])
        recs = [R.b5_zone_status_record(_z5(
            rnd.randint(0, 15), power=rnd.choice(["off", "on", "turbo"]),
            control_method=rnd.choice(["temperature", "damper"]), damper=rnd.randint(0, 127),
            sp_raw=rnd.choice([0xFF, rnd.randint(0, 250), rnd.randint(0, 255)]),
            sensor=rnd.random() < 0.7, temp_raw11=_rtemp(rnd), spill=rnd.random() < 0.5,
            battery_low=rnd.random() < 0.5), st, rnd.randint(0, 255))
            for _ in range(rnd.randint(0, 6))]
        return k, R.frame(5, TO, STD, pid, 0xC0, R.c0(0x21, st, recs))
    if k == "ac_status":
        st = rnd.choice([8, 10, 10, 12, 14])
        recs = [R.b5_ac_status_record(_a5(
            rnd.randint(0, 15), power_code=rnd.choice([0, 1, 2, 3, 5]),
            mode_code=rnd.choice([0, 1, 2, 3, 4, 8, 9]),
            fan_code=rnd.choice([0, 1, 2, 3, 4, 5, 6, 9, 10, 11, 12, 13, 14]),
            sp_raw=rnd.choice([rnd.randint(0, 250), rnd.randint(0, 255)]),
            turbo=rnd.random() < 0.5, bypass=rnd.random() < 0.5, spill=rnd.random() < 0.5,
            timer=rnd.random() < 0.5, temp_raw11=_rtemp(rnd),
            error=rnd.choice([0, 0, rnd.randint(0, 65535)])), st, rnd.randint(0, 255))
            for _ in range(rnd.randint(0, 4))]
        return k, R.frame(5, TO, STD, pid, 0xC0, R.c0(0x23, st, recs))
    if k == "ability":
        recs = [R.b5_ability_record(
            {"ac": a, "name": _rname(rnd, 16), "name_tail": _rtail(rnd),
             "start": rnd.randint(0, 15),
             "count": rnd.randint(0, 16), "modes": _rmodes(rnd), "fans": _rfans(rnd),
             "min_cool": rnd.randint(0, 255), "max_cool": rnd.randint(0, 255),
             "min_heat": rnd.randint(0, 255), "max_heat": rnd.randint(0, 255)})
            for a in range(rnd.randint(1, 4))]
        return k, R.frame(5, TO, EXT, pid, 0x1F, R.ext(0xFF11, b"".join(recs)))
    if k == "names":
        zs = rnd.sample(range(16), rnd.randint(1, 8))
        body = b""
        for z in zs:
            n = _rname(rnd, 16).encode()
            body += bytes([z, len(n)]) + n
        return k, R.frame(5, TO, EXT, pid, 0x1F, R.ext(0xFF13, body))
    if k == "version":
        return k, R.frame(5, TO, EXT, pid, 0x1F, R.ext(0xFF30, R.version_body(
            rnd.random() < 0.5, rnd.choice([["1.0.3"], ["1.0.3", "1.0.2"], ["2"],
                                                ["1.2.4-beta.20240131"] * 7,
                                                ["9" * 127, "8" * 127]]), ",")))
    if k == "error":
        return k, R.frame(5, TO, EXT, pid, 0x1F, R.ext(0xFF10, R.error_body(
            rnd.randint(0, 15), rnd.choice([None, "ER: 12", "E1"]))))
    st = rnd.choice([9, 9, 10, 12])
    recs = [bytes([rnd.randint(0, 15)]) + R.timer_bytes(_rtimer(rnd)) + R.timer_bytes(
        _rtimer(rnd)) + bytes(st - 5) for _ in range(rnd.randint(0, 4))]
    return k, R.frame(5, TO, STD, pid, 0xC0, R.c0(0x33, st, recs))
