"""Independent reference codec for the AirTouch 4 (v1.6) and AirTouch 5 (v1.2)
protocols, written from the vendor documents (text extracts in /verif/spec).

Imports nothing from pyairtouch.  Three-valued field readings:
  a value | NA (documented "not available/invalid" sentinel) | UNDEC (documents
  silent or contradictory: an oracle never fails on UNDEC).

Parts with no vendor text (flagged UNDOCUMENTED): the AT5 outer header
(55 55 55 AB, 00 00, length x2) and the timer messages (AT4 0x36/0x37, AT5
0xC032/0xC033, quick timer 0xFF20/0xFF49); their reading follows the module
docstrings and test vectors of the repository.
"""

from __future__ import annotations


class _Sentinel:
    def __init__(self, name):
        self.name = name

    def __repr__(self):
        return self.name

    def __reduce__(self):
        return self.name


NA = _Sentinel("NA")
UNDEC = _Sentinel("UNDEC")
KEEP = "keep"

# --------------------------------------------------------------------- CRC


def crc16(data) -> int:
    """CRC-16/MODBUS, bit by bit: reflected poly 0xA001, init 0xFFFF."""
    reg = 0xFFFF
    for byte in data:
        reg ^= byte
        for _ in range(8):
            if reg & 1:
                reg = (reg >> 1) ^ 0xA001
            else:
                reg >>= 1
    return reg


def crc_bytes(data) -> bytes:
    c = crc16(data)
    return bytes([c >> 8, c & 0xFF])  # high byte first (all PDF examples)


# ----------------------------------------------------------------- framing

AT4_PREFIX = b"\x55\x55"
AT5_OUTER = b"\x55\x55\x55\xab"  # UNDOCUMENTED (repo hdr.py docstring)
AT5_INNER = b"\x55\x55\x55\xaa"

ADDR_CONSOLE = 0x80
ADDR_CONSOLE_EXT = 0x90
ADDR_CLIENT = 0xB0


def frame(gen, to, frm, pid, typ, data) -> bytes:
    data = bytes(data)
    body = bytes([to, frm, pid, typ, len(data) >> 8, len(data) & 0xFF]) + data
    if gen == 4:
        return AT4_PREFIX + body + crc_bytes(body)
    n = 4 + len(body) + 2  # inner prefix + body + crc
    outer = AT5_OUTER + b"\x00\x00" + bytes([n >> 8, n & 0xFF]) * 2
    return outer + AT5_INNER + body + crc_bytes(body)


def header_len(gen):
    return 8 if gen == 4 else 20


class Frame:
    __slots__ = ("gen", "to", "frm", "pid", "typ", "data", "raw", "crc_ok", "start")

    def __init__(self, gen, to, frm, pid, typ, data, raw, crc_ok, start=0):
        self.gen, self.to, self.frm, self.pid, self.typ = gen, to, frm, pid, typ
        self.data, self.raw, self.crc_ok, self.start = data, raw, crc_ok, start

    def __repr__(self):
        return (f"Frame(gen={self.gen}, to={self.to:#x}, frm={self.frm:#x}, "
                f"pid={self.pid}, typ={self.typ:#x}, data={self.data.hex()}, "
                f"crc_ok={self.crc_ok})")


def parse_stream(gen, buf):
    """Parse a byte stream that must consist of whole frames.

    Returns (frames, rest, error).  `error` is a string describing the first
    structural problem (bad prefix, inconsistent lengths); `rest` is the
    unparsed tail (a truncated last frame gives error None and non-empty rest).
    """
    buf = bytes(buf)
    frames = []
    i = 0
    hl = header_len(gen)
    while i < len(buf):
        if len(buf) - i < hl:
            return frames, buf[i:], None
        h = buf[i:i + hl]
        if gen == 4:
            if h[0:2] != AT4_PREFIX:
                return frames, buf[i:], f"bad prefix at {i}: {h[0:2].hex()}"
            body0 = i + 2
        else:
            if h[0:4] != AT5_OUTER:
                return frames, buf[i:], f"bad outer prefix at {i}: {h[0:4].hex()}"
            # (h[4:6]: two filler bytes of the undocumented outer header - the console sends
            # zeros; what other values would mean is not written down anywhere, so the
            # reference does not judge them)
            l1 = (h[6] << 8) | h[7]
            l2 = (h[8] << 8) | h[9]
            if l1 != l2:
                return frames, buf[i:], f"outer lengths differ at {i}: {l1} {l2}"
            if h[10:14] != AT5_INNER:
                return frames, buf[i:], f"bad inner prefix at {i}: {h[10:14].hex()}"
            body0 = i + 14
        to, frm, pid, typ = buf[body0], buf[body0 + 1], buf[body0 + 2], buf[body0 + 3]
        n = (buf[body0 + 4] << 8) | buf[body0 + 5]
        if gen == 5 and l1 != 10 + n + 2:
            return frames, buf[i:], f"outer length {l1} != 10+{n}+2 at {i}"
        end = body0 + 6 + n + 2
        if end > len(buf):
            return frames, buf[i:], None
        body = buf[body0:body0 + 6 + n]
        crc = buf[body0 + 6 + n:end]
        frames.append(Frame(gen, to, frm, pid, typ, body[6:], buf[i:end],
                            crc == crc_bytes(body), i))
        i = end
    return frames, b"", None


# ------------------------------------------------------------ small helpers

def _cstr(b):
    b = bytes(b).split(b"\0", 1)[0]
    try:
        return b.decode("utf-8")
    except UnicodeDecodeError:
        return UNDEC


def _str(b):
    try:
        return bytes(b).decode("utf-8")
    except UnicodeDecodeError:
        return UNDEC


def _temp11(value):
    """AT5 11-bit temperature: 0..2000 -> (v-500)/10, other: not available."""
    if 0 <= value <= 2000:
        return (value - 500) / 10
    return NA


def _timer_state(b1, b2):  # UNDOCUMENTED
    return {"disabled": bool(b1 & 0x80), "hour": b1 & 0x1F, "minute": b2 & 0x3F}


class Reject(Exception):
    """The payload is structurally not what the documents describe."""


# ====================================================== AT4 status readings

AT4_GROUP_POWER = {0: "off", 1: "on", 3: "turbo"}
AC_MODE = {0: "auto", 1: "heat", 2: "dry", 3: "fan", 4: "cool",
           8: "auto_heat", 9: "auto_cool"}
AT4_FAN = {0: "auto", 1: "quiet", 2: "low", 3: "medium", 4: "high",
           5: "powerful", 6: "turbo"}
AT5_FAN = dict(AT4_FAN)
AT5_FAN.update({9: "ia_quiet", 10: "ia_low", 11: "ia_medium", 12: "ia_high",
                13: "ia_powerful", 14: "ia_turbo"})
AT5_AC_POWER = {0: "off", 1: "on", 2: "off_away", 3: "on_away", 5: "sleep"}


def at4_group_status_record(r):
    b1, b2, b3, b4, b5, b6 = r[:6]
    sensor = bool(b4 & 0x80)
    if b5 == 0xFF:
        temp = NA
    else:
        temp = (((b5 << 3) | (b6 >> 5)) - 500) / 10
    return {
        "group": b1 & 0x3F,
        "power": AT4_GROUP_POWER.get(b1 >> 6, UNDEC),
        "control_method": "temperature" if b2 & 0x80 else "damper",
        "damper": b2 & 0x7F,
        "battery_low": bool(b3 & 0x80),
        "turbo_support": bool(b3 & 0x40),
        "set_point_raw": b3 & 0x3F,
        "sensor": sensor,
        "temperature_raw": temp,
        # library convention (pyairtouch/api.py): absent without a sensor
        "temperature": temp if sensor else NA,
        "set_point": (b3 & 0x3F) if sensor else NA,
        "spill": bool(b6 & 0x10),
    }


def at4_group_status(payload):
    if len(payload) == 0:
        return {"request": True}
    if len(payload) % 6:
        raise Reject("group status length not a multiple of 6")
    return {"groups": [at4_group_status_record(payload[i:i + 6])
                       for i in range(0, len(payload), 6)]}


def at4_ac_status_record(r):
    b1, b2, b3, _b4, b5, b6, b7, b8 = r[:8]
    p = b1 >> 6
    return {
        "ac": b1 & 0x3F,
        "power": {0: "off", 1: "on"}.get(p, NA),
        "mode": AC_MODE.get(b2 >> 4, NA),
        "fan": AT4_FAN.get(b2 & 0x0F, NA),
        "spill": bool(b3 & 0x80),
        "timer": bool(b3 & 0x40),
        "set_point": b3 & 0x3F,
        "temperature": NA if b5 == 0xFF else (((b5 << 3) | (b6 >> 5)) - 500) / 10,
        "error": (b7 << 8) | b8,
    }


def at4_ac_status(payload):
    if len(payload) == 0:
        return {"request": True}
    if len(payload) % 8:
        raise Reject("ac status length not a multiple of 8")
    return {"acs": [at4_ac_status_record(payload[i:i + 8])
                    for i in range(0, len(payload), 8)]}


def _modes(b):
    return {"auto": bool(b & 1), "heat": bool(b & 2), "dry": bool(b & 4),
            "fan": bool(b & 8), "cool": bool(b & 16)}


def _fans(b, ia):
    d = {"auto": bool(b & 1), "quiet": bool(b & 2), "low": bool(b & 4),
         "medium": bool(b & 8), "high": bool(b & 16), "powerful": bool(b & 32),
         "turbo": bool(b & 64)}
    if ia:
        d["intelligent_auto"] = bool(b & 128)
    return d


def at4_ac_ability(sub):
    """sub = bytes after FF 11."""
    if len(sub) == 0:
        return {"request": "ALL"}
    if len(sub) == 1:
        return {"request": sub[0]}
    out = []
    i = 0
    while i < len(sub):
        if i + 2 > len(sub):
            raise Reject("truncated ability record")
        ac, flen = sub[i], sub[i + 1]
        if flen not in (22, 24):
            return UNDEC  # future layout
        rec = sub[i + 2:i + 2 + flen]
        if len(rec) < flen:
            raise Reject("ability record shorter than announced")
        groups = None
        if flen == 24:
            bits = rec[22] | (rec[23] << 8)  # byte27 = groups 1-8, byte28 = 9-16
            groups = {g for g in range(16) if bits & (1 << g)}
        out.append({
            "ac": ac, "name": _cstr(rec[0:16]), "start": rec[16], "count": rec[17],
            "modes": _modes(rec[18]), "fans": _fans(rec[19], False),
            "min_sp": rec[20], "max_sp": rec[21], "groups": groups,
        })
        i += 2 + flen
    return {"abilities": out}


def at4_group_names(sub):
    if len(sub) == 0:
        return {"request": "ALL"}
    if len(sub) == 1:
        return {"request": sub[0]}
    if len(sub) % 9:
        raise Reject("group names length not a multiple of 9")
    names = {}
    for i in range(0, len(sub), 9):
        names[sub[i]] = _cstr(sub[i + 1:i + 9])
    return {"names": names}


def error_info(sub):
    if len(sub) == 0:
        raise Reject("empty error info")
    if len(sub) == 1:
        return {"request": sub[0]}
    n = sub[1]
    if 2 + n != len(sub):
        if 2 + n > len(sub):
            raise Reject("error text longer than message")
        return UNDEC  # trailing bytes: documents silent
    return {"ac": sub[0], "text": _str(sub[2:2 + n]) if n else None}


def console_version(sub, sep):
    if len(sub) == 0:
        return {"request": True}
    if len(sub) < 2:
        raise Reject("short version message")
    n = sub[1]
    if 2 + n > len(sub):
        raise Reject("version text longer than message")
    if 2 + n != len(sub):
        return UNDEC
    s = _str(sub[2:2 + n])
    return {"update": sub[0] != 0,
            "versions": s.split(sep) if s is not UNDEC else UNDEC}


def at4_timer_status(payload):  # UNDOCUMENTED
    if len(payload) == 0:
        return {"request": True}
    if len(payload) % 8:
        raise Reject("timer status length not a multiple of 8")
    out = []
    for k in range(len(payload) // 8):
        r = payload[8 * k:8 * k + 8]
        out.append({"ac": k, "on": _timer_state(r[0], r[1]),
                    "off": _timer_state(r[2], r[3])})
    return {"timers": out}


# ====================================================== AT5 status readings

def c0_subheader(data):
    if len(data) < 8:
        raise Reject("0xC0 data shorter than its sub-header")
    sub = data[0]
    normal = (data[2] << 8) | data[3]
    rlen = (data[4] << 8) | data[5]
    rcount = (data[6] << 8) | data[7]
    return sub, normal, rlen, rcount, data[8:]


def at5_zone_status_record(r):
    b1, b2, b3, b4, b5, b6, b7 = r[:7]
    sensor = bool(b4 & 0x80)
    temp = _temp11(((b5 & 0x07) << 8) | b6)
    if b3 == 0xFF:
        sp = NA
    elif b3 <= 250:
        sp = (b3 + 100) / 10
    else:
        sp = UNDEC
    return {
        "zone": b1 & 0x3F,
        "power": AT4_GROUP_POWER.get(b1 >> 6, UNDEC),
        "control_method": "temperature" if b2 & 0x80 else "damper",
        "damper": b2 & 0x7F,
        "set_point": sp,
        "sensor": sensor,
        "temperature_raw": temp,
        "temperature": temp if sensor else NA,  # library convention
        "spill": bool(b7 & 0x02),
        "battery_low": bool(b7 & 0x01),
    }


def at5_ac_status_record(r):
    b1, b2, b3, b4, b5, b6, b7, b8 = r[:8]
    both = bool(b4 & 0x04) and bool(b4 & 0x02)
    return {
        "ac": b1 & 0x0F,
        "power": AT5_AC_POWER.get(b1 >> 4, NA),
        "mode": AC_MODE.get(b2 >> 4, NA),
        "fan": AT5_FAN.get(b2 & 0x0F, NA),
        "set_point": (b3 + 100) / 10 if b3 <= 250 else NA,
        "turbo": bool(b4 & 0x08),
        "bypass": bool(b4 & 0x04),
        "spill": bool(b4 & 0x02),
        "spill_state": UNDEC if both else ("spill" if b4 & 0x02 else
                                           "bypass" if b4 & 0x04 else "none"),
        "timer": bool(b4 & 0x01),
        "temperature": _temp11(((b5 & 0x07) << 8) | b6),
        "error": (b7 << 8) | b8,
    }


def at5_timer_record(r):  # UNDOCUMENTED
    return {"ac": r[0], "on": _timer_state(r[1], r[2]), "off": _timer_state(r[3], r[4])}


_C0_KNOWN = {0x21: (8, at5_zone_status_record, "zones"),
             0x23: (8, at5_ac_status_record, "acs"),
             0x33: (9, at5_timer_record, "timers")}


def at5_c0_status(data):
    """Reading of a 0xC0 frame's data for sub types 0x21/0x23/0x33."""
    sub, normal, rlen, rcount, body = c0_subheader(data)
    if sub in (0x20, 0x22, 0x32):
        return UNDEC  # client->console control messages; not a console report
    if sub not in _C0_KNOWN:
        return {"sub": sub, "unknown": True, "body": bytes(body)}
    if len(body) != normal + rlen * rcount:
        raise Reject("0xC0 lengths inconsistent with data length")
    known, rd, key = _C0_KNOWN[sub]
    if rlen == 0 and rcount == 0:
        if normal == 0:
            return {"sub": sub, "request": True}
        return UNDEC
    if normal != 0:
        # "if the protocol is upgraded this value may change": what the normal data means is
        # unknown, but where the records are is not - the repeat data follows it
        body = body[normal:]
    if rlen < known:
        if rcount == 0:
            return UNDEC
        raise Reject("repeat length shorter than the documented record")
    recs = [rd(body[k * rlen:k * rlen + rlen]) for k in range(rcount)]
    return {"sub": sub, key: recs}


def at5_ac_ability(sub):
    if len(sub) == 0:
        return {"request": "ALL"}
    if len(sub) == 1:
        return {"request": sub[0]}
    out = []
    i = 0
    while i < len(sub):
        if i + 2 > len(sub):
            raise Reject("truncated ability record")
        ac, flen = sub[i], sub[i + 1]
        if flen != 24:
            return UNDEC
        rec = sub[i + 2:i + 2 + flen]
        if len(rec) < flen:
            raise Reject("ability record shorter than announced")
        out.append({
            "ac": ac, "name": _cstr(rec[0:16]), "start": rec[16], "count": rec[17],
            "modes": _modes(rec[18]), "fans": _fans(rec[19], True),
            "min_cool": rec[20], "max_cool": rec[21],
            "min_heat": rec[22], "max_heat": rec[23],
        })
        i += 2 + flen
    return {"abilities": out}


def at5_zone_names(sub):
    if len(sub) == 0:
        return {"request": "ALL"}
    if len(sub) == 1:
        return {"request": sub[0]}
    names = {}
    i = 0
    while i < len(sub):
        if i + 2 > len(sub):
            raise Reject("truncated zone name record")
        z, n = sub[i], sub[i + 1]
        if i + 2 + n > len(sub):
            raise Reject("zone name longer than message")
        names[z] = _str(sub[i + 2:i + 2 + n])
        i += 2 + n
    return {"names": names}


# ============================================================ command reading

def _ext(data):
    if len(data) < 2:
        raise Reject("extended message without sub id")
    return (data[0] << 8) | data[1], data[2:]


def quick_timer(sub):  # UNDOCUMENTED
    if len(sub) != 4:
        raise Reject("quick timer is 4 bytes")
    return {"kind": "quick_timer", "ac": sub[0],
            "timer": {0: "off", 1: "on"}.get(sub[1], UNDEC),
            "hours": sub[2], "minutes": sub[3]}


def _setting3(v):
    return {0: KEEP, 2: "decrease", 3: "increase", 4: "set_damper",
            5: "set_setpoint"}.get(v)


def at4_read_command(f: Frame):
    """Meaning of a client->console AT4 frame as a dict (every undefined /
    'other' code maps to KEEP where the document says so)."""
    d = f.data
    t = f.typ
    if t == 0x2A:
        if len(d) != 4:
            raise Reject("group control is 4 bytes")
        s = _setting3(d[1] >> 5)
        return {"kind": "zone_control", "zone": d[0],
                "setting": s if s is not None else UNDEC,
                "control_type": {0: KEEP, 1: "change", 2: "damper",
                                 3: "temperature"}[(d[1] >> 3) & 3],
                "power": {0: KEEP, 1: "toggle", 2: "off", 3: "on",
                          5: "turbo"}.get(d[1] & 7, UNDEC),
                "value": d[2], "pad": d[3]}
    if t == 0x2C:
        if len(d) != 4:
            raise Reject("ac control is 4 bytes")
        sp_t = d[2] >> 6
        return {"kind": "ac_control", "ac": d[0] & 0x3F,
                "power": {0: KEEP, 1: "toggle", 2: "off", 3: "on"}[d[0] >> 6],
                "mode": {0: "auto", 1: "heat", 2: "dry", 3: "fan",
                         4: "cool"}.get(d[1] >> 4, KEEP),
                "fan": AT4_FAN.get(d[1] & 0x0F, KEEP),
                "setpoint": {0: KEEP, 1: "set", 2: "decrease", 3: "increase"}[sp_t],
                "setpoint_value": d[2] & 0x3F, "pad": d[3]}
    if t in (0x2B, 0x2D, 0x37):
        if len(d) == 0:
            return {"kind": {0x2B: "zone_status_request", 0x2D: "ac_status_request",
                             0x37: "timer_status_request"}[t]}
        return {"kind": "status_from_client", "typ": t}
    if t == 0x36:  # UNDOCUMENTED
        if len(d) != 32:
            raise Reject("timer control is 32 bytes")
        return {"kind": "timer_control",
                "timers": {k: {"on": _timer_state(d[8 * k], d[8 * k + 1]),
                               "off": _timer_state(d[8 * k + 2], d[8 * k + 3]),
                               "raw": bytes(d[8 * k:8 * k + 8])}
                           for k in range(4)}}
    if t == 0x1F:
        sid, sub = _ext(d)
        if sid == 0xFF30 and len(sub) == 0:
            return {"kind": "version_request"}
        if sid == 0xFF12 and len(sub) <= 1:
            return {"kind": "names_request", "which": sub[0] if sub else "ALL"}
        if sid == 0xFF11 and len(sub) <= 1:
            return {"kind": "ability_request", "which": sub[0] if sub else "ALL"}
        if sid == 0xFF10 and len(sub) == 1:
            return {"kind": "error_request", "ac": sub[0]}
        if sid == 0xFF20:
            return quick_timer(sub)
        return {"kind": "ext_other", "sid": sid, "sub": bytes(sub)}
    return {"kind": "other", "typ": t, "data": bytes(d)}


def at5_read_command(f: Frame):
    d = f.data
    t = f.typ
    if t == 0xC0:
        sub, normal, rlen, rcount, body = c0_subheader(d)
        if len(body) != normal + rlen * rcount:
            raise Reject("0xC0 lengths inconsistent with data length")
        if sub in (0x21, 0x23, 0x33) and normal == 0 and rlen == 0 and rcount == 0:
            return {"kind": {0x21: "zone_status_request", 0x23: "ac_status_request",
                             0x33: "timer_status_request"}[sub]}
        if sub == 0x20:
            if normal != 0 or rlen != 4:
                raise Reject("zone control: normal length 0, repeat length 4")
            recs = []
            for k in range(rcount):
                r = body[4 * k:4 * k + 4]
                s = _setting3(r[1] >> 5)
                if s is None:
                    s = KEEP  # "Other: Keep setting value"
                recs.append({
                    "zone": r[0] & 0x3F, "b1_hi": r[0] >> 6, "setting": s,
                    "control_type": {0: KEEP, 1: "change", 2: "damper",
                                     3: "temperature"}[(r[1] >> 3) & 3],
                    "power": {1: "toggle", 2: "off", 3: "on",
                              5: "turbo"}.get(r[1] & 7, KEEP),
                    "value": r[2], "pad": r[3]})
            return {"kind": "zone_control", "records": recs}
        if sub == 0x22:
            if normal != 0 or rlen != 4:
                raise Reject("ac control: normal length 0, repeat length 4")
            recs = []
            for k in range(rcount):
                r = body[4 * k:4 * k + 4]
                recs.append({
                    "ac": r[0] & 0x0F,
                    "power": {1: "toggle", 2: "off", 3: "on", 4: "away",
                              5: "sleep"}.get(r[0] >> 4, KEEP),
                    "mode": {0: "auto", 1: "heat", 2: "dry", 3: "fan",
                             4: "cool"}.get(r[1] >> 4, KEEP),
                    "fan": {0: "auto", 1: "quiet", 2: "low", 3: "medium", 4: "high",
                            5: "powerful", 6: "turbo",
                            8: "intelligent_auto"}.get(r[1] & 0x0F, KEEP),
                    "setpoint": {0x40: "set", 0x00: KEEP}.get(r[2], "invalid"),
                    "setpoint_value": r[3]})
            return {"kind": "ac_control", "records": recs}
        if sub == 0x32:  # UNDOCUMENTED
            if normal != 0 or rlen != 9:
                raise Reject("timer control: repeat length 9")
            recs = []
            for k in range(rcount):
                r = body[9 * k:9 * k + 9]
                recs.append({"ac": r[0], "on": _timer_state(r[1], r[2]),
                             "off": _timer_state(r[3], r[4]), "raw": bytes(r)})
            return {"kind": "timer_control", "records": recs}
        return {"kind": "c0_other", "sub": sub, "body": bytes(body)}
    if t == 0x1F:
        sid, sub = _ext(d)
        if sid == 0xFF30 and len(sub) == 0:
            return {"kind": "version_request"}
        if sid == 0xFF13 and len(sub) <= 1:
            return {"kind": "names_request", "which": sub[0] if sub else "ALL"}
        if sid == 0xFF11 and len(sub) <= 1:
            return {"kind": "ability_request", "which": sub[0] if sub else "ALL"}
        if sid == 0xFF10 and len(sub) == 1:
            return {"kind": "error_request", "ac": sub[0]}
        if sid == 0xFF49:
            return quick_timer(sub)
        return {"kind": "ext_other", "sid": sid, "sub": bytes(sub)}
    return {"kind": "other", "typ": t, "data": bytes(d)}


def read_command(f: Frame):
    return at4_read_command(f) if f.gen == 4 else at5_read_command(f)


def expected_to_address(f: Frame):
    return ADDR_CONSOLE_EXT if f.typ == 0x1F else ADDR_CONSOLE


# ======================================================= status frame reading

def read_status(gen, typ, data):
    """Reference reading of a console->client frame's data.
    Returns a dict, UNDEC, or raises Reject."""
    if gen == 4:
        if typ == 0x2B:
            return at4_group_status(data)
        if typ == 0x2D:
            return at4_ac_status(data)
        if typ == 0x37:
            return at4_timer_status(data)
        if typ in (0x2A, 0x2C, 0x36):
            return UNDEC  # client->console control messages
        if typ == 0x1F:
            sid, sub = _ext(data)
            if sid == 0xFF11:
                return at4_ac_ability(sub)
            if sid == 0xFF12:
                return at4_group_names(sub)
            if sid == 0xFF10:
                return error_info(sub)
            if sid == 0xFF30:
                return console_version(sub, "|")
            if sid == 0xFF20:
                return UNDEC  # quick timer command (client->console, undocumented)
            return {"ext_unknown": sid, "body": bytes(sub)}
        return {"unknown": typ, "body": bytes(data)}
    if typ == 0xC0:
        return at5_c0_status(data)
    if typ == 0x1F:
        sid, sub = _ext(data)
        if sid == 0xFF11:
            return at5_ac_ability(sub)
        if sid == 0xFF13:
            return at5_zone_names(sub)
        if sid == 0xFF10:
            return error_info(sub)
        if sid == 0xFF30:
            return console_version(sub, ",")
        if sid == 0xFF49:
            return UNDEC  # quick timer command (client->console, undocumented)
        return {"ext_unknown": sid, "body": bytes(sub)}
    return {"unknown": typ, "body": bytes(data)}


# ================================================================== builders
# (console side: used by SimConsole and by workload generators)

def _name_fixed(name, n, tail=None):
    """A fixed-width, NUL-terminated text field. tail: what a console that wrote a shorter
    name over an older one (or never cleared its flash) leaves behind the terminator."""
    b = name.encode("utf-8")[:n]
    if tail and len(b) < n - 1:
        room = n - len(b) - 1
        return b + b"\0" + (bytes(tail) * room)[:room]
    return b + b"\0" * (n - len(b))


def b4_group_status_record(g):
    """g: dict(group, power, control_method, damper, battery_low, turbo_support,
    set_point_raw, sensor, temp_raw11 (0..2047) or None->0xFF00, spill)."""
    p = {"off": 0, "on": 1, "turbo": 3}[g["power"]]
    b1 = (p << 6) | (g["group"] & 0x3F)
    b2 = (0x80 if g["control_method"] == "temperature" else 0) | (g["damper"] & 0x7F)
    b3 = ((0x80 if g["battery_low"] else 0) | (0x40 if g["turbo_support"] else 0)
          | (g["set_point_raw"] & 0x3F))
    b4 = 0x80 if g["sensor"] else 0
    if g.get("temp_raw11") is None:
        b5, b6 = 0xFF, 0x00
    else:
        v = g["temp_raw11"] & 0x7FF
        b5, b6 = v >> 3, (v & 7) << 5
    if g["spill"]:
        b6 |= 0x10
    return bytes([b1, b2, b3, b4, b5, b6])


def b4_ac_status_record(a):
    """a: dict(ac, power(off/on), mode_code, fan_code, spill, timer, set_point,
    temp_raw11 or None, error)."""
    b1 = ({"off": 0, "on": 1}[a["power"]] << 6) | (a["ac"] & 0x3F)
    b2 = ((a["mode_code"] & 0xF) << 4) | (a["fan_code"] & 0xF)
    b3 = (0x80 if a["spill"] else 0) | (0x40 if a["timer"] else 0) | (a["set_point"] & 0x3F)
    if a.get("temp_raw11") is None:
        b5, b6 = 0xFF, 0
    else:
        v = a["temp_raw11"] & 0x7FF
        b5, b6 = v >> 3, (v & 7) << 5
    return bytes([b1, b2, b3, 0, b5, b6, (a["error"] >> 8) & 0xFF, a["error"] & 0xFF])


def _mode_bits(m):
    return sum(bit for k, bit in (("auto", 1), ("heat", 2), ("dry", 4), ("fan", 8),
                                  ("cool", 16)) if m.get(k))


def _fan_bits(f):
    return sum(bit for k, bit in (("auto", 1), ("quiet", 2), ("low", 4), ("medium", 8),
                                  ("high", 16), ("powerful", 32), ("turbo", 64),
                                  ("intelligent_auto", 128)) if f.get(k))


def b4_ability_record(a):
    """a: dict(ac, name, start, count, modes, fans, min_sp, max_sp, groups|None)."""
    rec = (_name_fixed(a["name"], 16, a.get("name_tail"))
           + bytes([a["start"], a["count"], _mode_bits(a["modes"]),
                    _fan_bits(a["fans"]) & 0x7F, a["min_sp"], a["max_sp"]]))
    if a.get("groups") is not None:
        bits = sum(1 << g for g in a["groups"])
        rec += bytes([bits & 0xFF, bits >> 8])
    return bytes([a["ac"], len(rec)]) + rec


def b5_ability_record(a):
    rec = (_name_fixed(a["name"], 16, a.get("name_tail"))
           + bytes([a["start"], a["count"], _mode_bits(a["modes"]), _fan_bits(a["fans"]),
                    a["min_cool"], a["max_cool"], a["min_heat"], a["max_heat"]]))
    return bytes([a["ac"], len(rec)]) + rec


def b5_zone_status_record(z, stride=8, fill=0):
    """z: dict(zone, power, control_method, damper, sp_raw (0..255), sensor,
    temp_raw11 (0..2047), spill, battery_low)."""
    p = {"off": 0, "on": 1, "turbo": 3}[z["power"]]
    b1 = (p << 6) | (z["zone"] & 0x3F)
    b2 = (0x80 if z["control_method"] == "temperature" else 0) | (z["damper"] & 0x7F)
    v = z["temp_raw11"] & 0x7FF
    b7 = (2 if z["spill"] else 0) | (1 if z["battery_low"] else 0)
    r = bytes([b1, b2, z["sp_raw"] & 0xFF, 0x80 if z["sensor"] else 0, v >> 8, v & 0xFF,
               b7, 0])
    return r + bytes([fill]) * (stride - 8)


def b5_ac_status_record(a, stride=10, fill=0):
    """a: dict(ac, power_code, mode_code, fan_code, sp_raw, turbo, bypass, spill,
    timer, temp_raw11, error)."""
    b1 = ((a["power_code"] & 0xF) << 4) | (a["ac"] & 0xF)
    b2 = ((a["mode_code"] & 0xF) << 4) | (a["fan_code"] & 0xF)
    b4 = ((8 if a["turbo"] else 0) | (4 if a["bypass"] else 0) | (2 if a["spill"] else 0)
          | (1 if a["timer"] else 0))
    v = a["temp_raw11"] & 0x7FF
    r = bytes([b1, b2, a["sp_raw"] & 0xFF, b4, v >> 8, v & 0xFF,
               (a["error"] >> 8) & 0xFF, a["error"] & 0xFF])
    return r + bytes([fill]) * (stride - 8)


def timer_bytes(t):
    if t.get("raw") is not None:
        return bytes(t["raw"])   # e.g. a disabled timer whose ignored bits are no time at all
    return bytes([(0x80 if t["disabled"] else 0) | (t["hour"] & 0x1F), t["minute"] & 0x3F])


def c0(sub, rlen, records, normal=b""):
    n = len(records)
    nl = len(normal)
    return (bytes([sub, 0, nl >> 8, nl & 0xFF, rlen >> 8, rlen & 0xFF, n >> 8, n & 0xFF])
            + bytes(normal) + b"".join(records))


def c0_request(sub):
    return bytes([sub, 0, 0, 0, 0, 0, 0, 0])


def ext(sid, body=b""):
    return bytes([sid >> 8, sid & 0xFF]) + bytes(body)


def version_body(update, versions, sep):
    s = sep.join(versions).encode("utf-8")
    return bytes([1 if update else 0, len(s)]) + s


def error_body(ac, text):
    s = (text or "").encode("utf-8")
    return bytes([ac, len(s)]) + s


# ================================================================= discovery

AT4_DISCOVERY_REQUEST = b"HF-A11ASSISTHREAD"
AT5_DISCOVERY_REQUEST = b"::REQUEST-POLYAIRE-AIRTOUCH-DEVICE-INFO:;"
AT4_DISCOVERY_PORT = 49004
AT5_DISCOVERY_PORT = 49005


def discovery_response(data: bytes):
    """Reference reading of a datagram.  Returns dict(model, host, serial, id,
    name) for a datagram in the vendor response format, else None.
    AT4: [IP],[MAC],AirTouch4,[ID]   AT5: [IP],[ConsoleID],AirTouch5,[ID],[Name]
    (the name is the rest of the datagram and may contain commas)."""
    try:
        s = data.decode("utf-8")
    except UnicodeDecodeError:
        return None
    parts = s.split(",")
    if len(parts) >= 4 and parts[2] == "AirTouch4":
        if len(parts) != 4:
            # the id field would contain a comma: documents silent
            return UNDEC
        return {"model": 4, "host": parts[0], "serial": parts[1], "id": parts[3],
                "name": None}
    if len(parts) >= 5 and parts[2] == "AirTouch5":
        return {"model": 5, "host": parts[0], "serial": parts[1], "id": parts[3],
                "name": ",".join(parts[4:])}
    return None
