"""Generators of canonical messages of all 36 message/request classes (18 per
generation) in their protocol domains, as objects of the repository's public
message dataclasses (DESIGN.md §C03 'Domain')."""

from __future__ import annotations

import datetime
import random

import pyairtouch.at4.comms.x1F_ext as e4
import pyairtouch.at4.comms.x1FFF10_err_info as err4
import pyairtouch.at4.comms.x1FFF11_ac_ability as ab4
import pyairtouch.at4.comms.x1FFF12_group_names as nm4
import pyairtouch.at4.comms.x1FFF20_quick_timer as qt4
import pyairtouch.at4.comms.x1FFF30_console_ver as ver4
import pyairtouch.at4.comms.x2A_group_ctrl as gc4
import pyairtouch.at4.comms.x2B_group_status as gs4
import pyairtouch.at4.comms.x2C_ac_ctrl as ac4
import pyairtouch.at4.comms.x2D_ac_status as as4
import pyairtouch.at4.comms.x36_ac_timer_ctrl as tc4
import pyairtouch.at4.comms.x37_ac_timer_status as ts4
import pyairtouch.at5.comms.x1F_ext as e5
import pyairtouch.at5.comms.x1FFF10_err_info as err5
import pyairtouch.at5.comms.x1FFF11_ac_ability as ab5
import pyairtouch.at5.comms.x1FFF13_zone_names as nm5
import pyairtouch.at5.comms.x1FFF30_console_ver as ver5
import pyairtouch.at5.comms.x1FFF49_quick_timer as qt5
import pyairtouch.at5.comms.xC0_ctrl_status as c05
import pyairtouch.at5.comms.xC020_zone_ctrl as zc5
import pyairtouch.at5.comms.xC021_zone_status as zs5
import pyairtouch.at5.comms.xC022_ac_ctrl as ac5
import pyairtouch.at5.comms.xC023_ac_status as as5
import pyairtouch.at5.comms.xC032_ac_timer_ctrl as tc5
import pyairtouch.at5.comms.xC033_ac_timer_status as ts5

_WORDS = ["Living", "Küche", "Büro", "寝室", "Zone", "Bed 1", "A", "", "naïve", "Ω", "Kids🙂",
          "Master Bedroom", "Up-stairs", "x" * 16, "é" * 8,
          # text whose bytes look like framing: runs of 0x55 (the frame prefix byte)
          "UUU", "UUUU", "U" * 16, "aUUUb UUU", "UU",
          # valid UTF-8 that is not in NFC: combining marks, the OHM and ANGSTROM signs
          "Cafe\u0301", "A\u030angstr", "\u2126", "\u212b 7"]


def fresh(s):
    """An equal but not identical (not interned) copy of a string - what an application gets
    from a config file, a command line or JSON, where source literals are interned."""
    return (s + "_")[:-1]


def _all(rnd):
    return rnd.choice(["ALL", fresh("ALL"), fresh("ALL")])


def name(rnd, max_bytes):
    """A string whose UTF-8 encoding fits max_bytes, cut on a character
    boundary, without NUL."""
    if rnd.random() < 0.5:
        s = rnd.choice(_WORDS)
    else:
        s = "".join(rnd.choice("abcXYZ 019-_äÖß€漢🙂UUU") for _ in range(rnd.randint(0, max_bytes)))
    while len(s.encode("utf-8")) > max_bytes:
        s = s[:-1]
    return s


def grid_temp(rnd, lo, hi):
    """A temperature on the 0.1 grid expressed as (raw - 500)/10."""
    return (rnd.randint(lo, hi) - 500) / 10


def grid_sp5(rnd):
    return (rnd.randint(0, 250) + 100) / 10


def _timer4(rnd):
    return ts4.AcTimerState(disabled=rnd.random() < 0.5, hour=rnd.randint(0, 23),
                            minute=rnd.randint(0, 59))


def _timer5(rnd):
    return ts5.AcTimerState(disabled=rnd.random() < 0.5, hour=rnd.randint(0, 23),
                            minute=rnd.randint(0, 59))


def _count(rnd, lo, hi=16):
    return rnd.choice([lo, lo, 1, 2, 3, 4, 16, rnd.randint(lo, hi)]) if lo == 0 else \
        rnd.choice([1, 1, 2, 3, 4, 16, rnd.randint(lo, hi)])


# ------------------------------------------------------------------ AT4

def at4_group_status_data(rnd, group=None):
    sensor = rnd.random() < 0.7
    temp = None
    if sensor and rnd.random() < 0.9:
        temp = grid_temp(rnd, 0, 2000)
    return gs4.GroupStatusData(
        group_number=rnd.randint(0, 15) if group is None else group,
        power_state=rnd.choice(list(gs4.GroupPowerState)),
        control_method=rnd.choice(list(gs4.GroupControlMethod)),
        spill_active=rnd.random() < 0.5,
        supports_turbo=rnd.random() < 0.5,
        has_sensor=sensor,
        battery_status=rnd.choice(list(gs4.SensorBatteryStatus)),
        temperature=temp,
        damper_percentage=rnd.randint(0, 100),
        set_point=rnd.randint(0, 63) if sensor else None,
    )


def at4_ac_status_data(rnd, ac=None):
    return as4.AcStatusData(
        ac_number=rnd.randint(0, 3) if ac is None else ac,
        power_state=rnd.choice(list(as4.AcPowerState)),
        mode=rnd.choice(list(as4.AcMode)),
        fan_speed=rnd.choice(list(as4.AcFanSpeed)),
        spill_active=rnd.random() < 0.5, timer_set=rnd.random() < 0.5,
        set_point=rnd.randint(0, 63), temperature=grid_temp(rnd, 0, 2000),
        error_code=rnd.choice([0, 0, 1, 0xFFFE, rnd.randint(0, 65535)]))


def at4_ability(rnd, ac=None):
    return ab4.AcAbility(
        ac_number=rnd.randint(0, 3) if ac is None else ac,
        ac_name=name(rnd, 16),
        ac_mode_support={**{m: rnd.random() < 0.7 for m in ac4.AcModeControl
                            if m != ac4.AcModeControl.UNCHANGED},
                         ac4.AcModeControl.UNCHANGED: True},
        fan_speed_support={**{m: rnd.random() < 0.7 for m in ac4.AcFanSpeedControl
                              if m != ac4.AcFanSpeedControl.UNCHANGED},
                           ac4.AcFanSpeedControl.UNCHANGED: True},
        min_set_point=rnd.randint(0, 40), max_set_point=rnd.randint(0, 255),
        groups=None if rnd.random() < 0.4 else {g for g in range(16) if rnd.random() < 0.4},
        start_group=rnd.randint(0, 15), group_count=rnd.randint(0, 16))


def _versions(rnd, sep):
    n = rnd.choice([1, 1, 2, 2, 3])
    return [("".join(rnd.choice("0123456789.vβ-") for _ in range(rnd.randint(1, 9)))).replace(
        sep, ".") for _ in range(n)]


def at4_messages(rnd):
    """One canonical message of each of the 18 AT4 classes: (class name, msg)."""
    X = e4.ExtendedMessage
    setting = rnd.choice([None, rnd.choice(list(gc4.GroupIncreaseDecrease)),
                          gc4.GroupDamperControl(rnd.randint(0, 100)),
                          gc4.GroupSetPointControl(rnd.randint(0, 63))])
    spc = rnd.choice([None, rnd.choice(list(ac4.AcIncreaseDecrease)),
                      ac4.AcSetPointValue(rnd.randint(0, 63))])
    timers = [ts4.AcTimerStatusData(ac_number=i, on_timer=_timer4(rnd), off_timer=_timer4(rnd))
              for i in range(4)]
    gnums = rnd.sample(range(16), _count(rnd, 1))
    return [
        ("GroupControlMessage", gc4.GroupControlMessage(
            group_number=rnd.randint(0, 15), power=rnd.choice(list(gc4.GroupPowerControl)),
            control_method=rnd.choice(list(gc4.GroupControlMethod)), setting=setting)),
        ("GroupStatusMessage", gs4.GroupStatusMessage(
            [at4_group_status_data(rnd) for _ in range(_count(rnd, 1))])),
        ("GroupStatusRequest", gs4.GroupStatusRequest()),
        ("AcControlMessage", ac4.AcControlMessage(
            ac_number=rnd.randint(0, 3), power=rnd.choice(list(ac4.AcPowerControl)),
            mode=rnd.choice(list(ac4.AcModeControl)),
            fan_speed=rnd.choice(list(ac4.AcFanSpeedControl)), set_point_control=spc)),
        ("AcStatusMessage", as4.AcStatusMessage(
            [at4_ac_status_data(rnd) for _ in range(_count(rnd, 1))])),
        ("AcStatusRequest", as4.AcStatusRequest()),
        ("AcTimerControlMessage", tc4.AcTimerControlMessage(ac_timer_status=list(timers))),
        ("AcTimerStatusMessage", ts4.AcTimerStatusMessage(ac_timer_status=list(timers))),
        ("AcTimerStatusRequest", ts4.AcTimerStatusRequest()),
        ("AcErrorInformationMessage", X(err4.AcErrorInformationMessage(
            ac_number=rnd.randint(0, 3),
            error_info=rnd.choice([None, "ER: FFFE", name(rnd, 60) or "E"])))),
        ("AcErrorInformationRequest", X(err4.AcErrorInformationRequest(rnd.randint(0, 3)))),
        ("AcAbilityMessage", X(ab4.AcAbilityMessage(
            [at4_ability(rnd) for _ in range(rnd.choice([1, 1, 2, 3, 4]))]))),
        ("AcAbilityRequest", X(ab4.AcAbilityRequest(rnd.choice([_all(rnd), 0, 1, 3])))),
        ("GroupNamesMessage", X(nm4.GroupNamesMessage({g: name(rnd, 8) for g in gnums}))),
        ("GroupNamesRequest", X(nm4.GroupNamesRequest(rnd.choice([_all(rnd), 0, 7, 15])))),
        ("QuickTimerMessage", X(qt4.QuickTimerMessage(
            ac_number=rnd.randint(0, 3), timer_type=rnd.choice(list(qt4.TimerType)),
            duration=datetime.timedelta(hours=rnd.randint(0, 23), minutes=rnd.randint(0, 59))))),
        ("ConsoleVersionMessage", X(ver4.ConsoleVersionMessage(
            update_available=rnd.random() < 0.5, versions=_versions(rnd, "|")))),
        ("ConsoleVersionRequest", X(ver4.ConsoleVersionRequest())),
    ]


# ------------------------------------------------------------------ AT5

def at5_zone_status_data(rnd, zone=None):
    sensor = rnd.random() < 0.7
    temp = None
    if sensor and rnd.random() < 0.9:
        temp = grid_temp(rnd, 0, 2000)
    return zs5.ZoneStatusData(
        zone_number=rnd.randint(0, 15) if zone is None else zone,
        power_state=rnd.choice(list(zs5.ZonePowerState)),
        spill_active=rnd.random() < 0.5,
        control_method=rnd.choice(list(zs5.ZoneControlMethod)),
        has_sensor=sensor, battery_status=rnd.choice(list(zs5.SensorBatteryStatus)),
        temperature=temp, damper_percentage=rnd.randint(0, 100),
        set_point=None if rnd.random() < 0.3 else grid_sp5(rnd))


def at5_ac_status_data(rnd, ac=None):
    return as5.AcStatusData(
        ac_number=rnd.randint(0, 15) if ac is None else ac,
        power_state=rnd.choice(list(as5.AcPowerState)), mode=rnd.choice(list(as5.AcMode)),
        fan_speed=rnd.choice(list(as5.AcFanSpeed)),
        turbo_active=rnd.random() < 0.5, bypass_active=rnd.random() < 0.5,
        spill_active=rnd.random() < 0.5, timer_set=rnd.random() < 0.5,
        set_point=grid_sp5(rnd), temperature=grid_temp(rnd, 0, 2000),
        error_code=rnd.choice([0, 0, 3, rnd.randint(0, 65535)]))


def at5_ability(rnd, ac=None):
    return ab5.AcAbility(
        ac_number=rnd.randint(0, 15) if ac is None else ac, ac_name=name(rnd, 16),
        start_zone=rnd.randint(0, 15), zone_count=rnd.randint(0, 16),
        ac_mode_support={**{m: rnd.random() < 0.7 for m in ac5.AcModeControl
                            if m != ac5.AcModeControl.UNCHANGED},
                         ac5.AcModeControl.UNCHANGED: True},
        fan_speed_support={**{m: rnd.random() < 0.7 for m in ac5.AcFanSpeedControl
                              if m != ac5.AcFanSpeedControl.UNCHANGED},
                           ac5.AcFanSpeedControl.UNCHANGED: True},
        min_cool_set_point=rnd.randint(0, 40), max_cool_set_point=rnd.randint(0, 255),
        min_heat_set_point=rnd.randint(0, 40), max_heat_set_point=rnd.randint(0, 255))


def at5_messages(rnd):
    X, C = e5.ExtendedMessage, c05.ControlStatusMessage

    def zsetting():
        return rnd.choice([None, rnd.choice(list(zc5.ZoneIncreaseDecrease)),
                           zc5.ZoneDamperControl(rnd.randint(0, 100)),
                           zc5.ZoneSetPointControl(grid_sp5(rnd))])
    znums = rnd.sample(range(16), _count(rnd, 1))
    return [
        ("ZoneControlMessage", C(zc5.ZoneControlMessage([
            zc5.ZoneControlData(zone_number=rnd.randint(0, 15),
                                zone_power=rnd.choice(list(zc5.ZonePowerControl)),
                                zone_setting=zsetting()) for _ in range(_count(rnd, 0))]))),
        ("ZoneStatusMessage", C(zs5.ZoneStatusMessage(
            [at5_zone_status_data(rnd) for _ in range(_count(rnd, 0))]))),
        ("ZoneStatusRequest", C(zs5.ZoneStatusRequest())),
        ("AcControlMessage", C(ac5.AcControlMessage([
            ac5.AcControlData(ac_number=rnd.randint(0, 15),
                              power=rnd.choice(list(ac5.AcPowerControl)),
                              mode=rnd.choice(list(ac5.AcModeControl)),
                              fan_speed=rnd.choice(list(ac5.AcFanSpeedControl)),
                              set_point=rnd.choice([None, grid_sp5(rnd)]))
            for _ in range(_count(rnd, 0))]))),
        ("AcStatusMessage", C(as5.AcStatusMessage(
            [at5_ac_status_data(rnd) for _ in range(_count(rnd, 0))]))),
        ("AcStatusRequest", C(as5.AcStatusRequest())),
        ("AcTimerControlMessage", C(tc5.AcTimerControlMessage(ac_timer_status=[
            ts5.AcTimerStatusData(ac_number=rnd.randint(0, 15), on_timer=_timer5(rnd),
                                  off_timer=_timer5(rnd)) for _ in range(_count(rnd, 0))]))),
        ("AcTimerStatusMessage", C(ts5.AcTimerStatusMessage(ac_timer_status=[
            ts5.AcTimerStatusData(ac_number=rnd.randint(0, 15), on_timer=_timer5(rnd),
                                  off_timer=_timer5(rnd)) for _ in range(_count(rnd, 0))]))),
        ("AcTimerStatusRequest", C(ts5.AcTimerStatusRequest())),
        ("AcErrorInformationMessage", X(err5.AcErrorInformationMessage(
            ac_number=rnd.randint(0, 15),
            error_info=rnd.choice([None, "ER: 12", name(rnd, 60) or "E"])))),
        ("AcErrorInformationRequest", X(err5.AcErrorInformationRequest(rnd.randint(0, 15)))),
        ("AcAbilityMessage", X(ab5.AcAbilityMessage(
            [at5_ability(rnd) for _ in range(rnd.choice([1, 1, 2, 3, 4, 8]))]))),
        ("AcAbilityRequest", X(ab5.AcAbilityRequest(rnd.choice([_all(rnd), 0, 1, 15])))),
        ("ZoneNamesMessage", X(nm5.ZoneNamesMessage({z: name(rnd, 16) for z in znums}))),
        ("ZoneNamesRequest", X(nm5.ZoneNamesRequest(rnd.choice([_all(rnd), 0, 7, 15])))),
        ("QuickTimerMessage", X(qt5.QuickTimerMessage(
            ac_number=rnd.randint(0, 15), timer_type=rnd.choice(list(qt5.TimerType)),
            duration=datetime.timedelta(hours=rnd.randint(0, 23), minutes=rnd.randint(0, 59))))),
        ("ConsoleVersionMessage", X(ver5.ConsoleVersionMessage(
            update_available=rnd.random() < 0.5, versions=_versions(rnd, ",")))),
        ("ConsoleVersionRequest", X(ver5.ConsoleVersionRequest())),
    ]


def messages(gen, rnd):
    return at4_messages(rnd) if gen == 4 else at5_messages(rnd)


# -------------------------------------------------- directed edge messages
# (values a random draw rarely hits but the domain contains)

def edge_messages(gen):
    out = []
    r = random.Random(1234)
    if gen == 4:
        for t in (0.0, -50.0, 150.0, 0.1, -0.1, 25.5):
            g = at4_group_status_data(r, 1)
            g.has_sensor, g.temperature, g.set_point = True, t, 20
            out.append((f"GroupStatusMessage[temp={t}]", gs4.GroupStatusMessage([g])))
            a = at4_ac_status_data(r, 0)
            a.temperature = t
            out.append((f"AcStatusMessage[temp={t}]", as4.AcStatusMessage([a])))
        g = at4_group_status_data(r, 2)
        g.has_sensor, g.set_point, g.temperature = True, 0, 21.0
        out.append(("GroupStatusMessage[set_point=0]", gs4.GroupStatusMessage([g])))
    else:
        for t in (0.0, -50.0, 150.0, 0.1, -0.1, 25.5):
            z = at5_zone_status_data(r, 1)
            z.has_sensor, z.temperature = True, t
            out.append((f"ZoneStatusMessage[temp={t}]",
                        c05.ControlStatusMessage(zs5.ZoneStatusMessage([z]))))
            a = at5_ac_status_data(r, 0)
            a.temperature = t
            out.append((f"AcStatusMessage[temp={t}]",
                        c05.ControlStatusMessage(as5.AcStatusMessage([a]))))
        for n in (1, 2, 3, 16):
            out.append((f"ZoneNamesMessage[{n}]", e5.ExtendedMessage(nm5.ZoneNamesMessage(
                {i: f"Z{i}" for i in range(n)}))))
        out.append(("ZoneNamesMessage[multibyte]", e5.ExtendedMessage(nm5.ZoneNamesMessage(
            {0: "Küche", 1: "寝室", 2: ""}))))
    return out
