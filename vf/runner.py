"""Runner: ./check <Cnn> --tier quick|thorough [--seed N] [--replay file]

Exit codes: 0 held (possibly with KNOWN-FINDING lines), 1 violated
(VIOLATION property=<id> replay=<path>), 2 inconclusive.
"""

from __future__ import annotations

import argparse
import concurrent.futures
import hashlib
import importlib
import json
import os
import pickle
import shutil
import subprocess
import sys
import tempfile
import time
import traceback

VERIF = os.path.dirname(os.path.dirname(os.path.abspath(__file__)))
KNOWN_FILE = os.path.join(VERIF, "known_findings.json")
MAX_VIOL_PER_SHARD = 40
MAX_SAMPLES = 6


def load_prop(pid):
    return importlib.import_module(f"vf.props.{pid.lower()}")


def load_known():
    try:
        with open(KNOWN_FILE) as f:
            data = json.load(f)
    except FileNotFoundError:
        return []
    return data.get("findings", [])


def known_match(known, pid, mechanism):
    for k in known:
        if k.get("status") == "known" and k["property"] == pid and k["mechanism"] == mechanism:
            return k
    return None


# --------------------------------------------------------------------- worker

def all_cases(mod, pid, tier, seed):
    """The check's own cases, then (for checks that declare SOAK) the soak sessions whose
    whole-run monitors include this property (vf/soak.py)."""
    yield from mod.cases(tier, seed)
    if getattr(mod, "SOAK", False):
        from . import soak
        yield from soak.cases(tier, seed, pid)


def run_one(mod, pid, case):
    import zlib
    from . import harness as H
    h = zlib.crc32(repr(case).encode())
    H.DEBUG_DEFAULT = h % 5 == 0
    H.LOOP_DEBUG_DEFAULT = h % 11 == 3
    H.POLL_DEFAULT = h % 3 == 1
    H.EAGER_DEFAULT = h % 13 == 5 and getattr(mod, "EAGER_OK", True)
    H.WARN_ERROR_DEFAULT = h % 7 == 2
    H.QUIET_DEFAULT = h % 9 == 4 and not H.DEBUG_DEFAULT
    try:
        if isinstance(case, dict) and case.get("k") == "soak":
            from . import soak
            r = soak.run_case(case, pid)
        else:
            r = mod.run_case(case)
        if H.DEBUG_DEFAULT and isinstance(r, dict):
            r.setdefault("obs", {})
            r["obs"]["cases_with_debug_logging_on"] = 1
        if H.QUIET_DEFAULT and isinstance(r, dict):
            r.setdefault("obs", {})
            r["obs"]["cases_with_warnings_silenced"] = 1
        if H.WARN_ERROR_DEFAULT and isinstance(r, dict):
            r.setdefault("obs", {})
            r["obs"]["cases_with_warnings_as_errors"] = 1
        if H.EAGER_DEFAULT and isinstance(r, dict):
            r.setdefault("obs", {})
            r["obs"]["cases_with_eager_task_factory"] = 1
        if H.LOOP_DEBUG_DEFAULT and isinstance(r, dict):
            r.setdefault("obs", {})
            r["obs"]["cases_with_asyncio_debug_mode"] = 1
        return r
    finally:
        H.DEBUG_DEFAULT = False
        H.LOOP_DEBUG_DEFAULT = False
        H.POLL_DEFAULT = False
        H.EAGER_DEFAULT = False
        H.WARN_ERROR_DEFAULT = False
        H.QUIET_DEFAULT = False


def worker(pid, tier, seed, shard, nshards, out_path, budget_s):
    from . import harness as H
    mod = load_prop(pid)
    if getattr(mod, "TRACE", True):
        H.EXPLORED.enable()
    t0 = time.time()
    res = {"evals": 0, "cases": 0, "fps": set(), "distinct_extra": 0, "violations": [],
           "samples": [], "obs": {}, "decided": 0, "errors": [], "truncated": False,
           "exhaustive": True}
    res["mech_counts"] = {}
    known = load_known()
    new_count = 0
    try:
        for i, case in enumerate(all_cases(mod, pid, tier, seed)):
            if i % nshards != shard:
                continue
            if time.time() - t0 > budget_s:
                res["truncated"] = True
                res["exhaustive"] = False
                break
            try:
                r = run_one(mod, pid, case)
            except Exception:
                res["errors"].append({"case": H.jsonable(case),
                                      "trace": traceback.format_exc()[-3000:]})
                if len(res["errors"]) > 5:
                    break
                continue
            res["cases"] += 1
            if sys.flags.optimize:
                res["obs"]["cases_run_under_python_O"] = res["obs"].get(
                    "cases_run_under_python_O", 0) + 1
            if "error" in sys.warnoptions:
                res["obs"]["cases_run_with_warnings_as_errors"] = res["obs"].get(
                    "cases_run_with_warnings_as_errors", 0) + 1
            res["evals"] += r.get("evals", 1)
            res["decided"] += r.get("decided", 0)
            if "fps" in r:
                res["fps"].update(r["fps"])
                res["distinct_extra"] += r.get("distinct", 0)
            elif "distinct" in r:
                res["distinct_extra"] += r["distinct"]
            elif r.get("decided", 0) > 0:
                fp = r.get("fp") or H.fingerprint(case)
                res["fps"].add(fp)
            for k, v in r.get("obs", {}).items():
                res["obs"][k] = res["obs"].get(k, 0) + v
            for v in r.get("violations", []):
                m = v["mechanism"]
                res["mech_counts"][m] = res["mech_counts"].get(m, 0) + 1
                if res["mech_counts"][m] <= 3:
                    res["violations"].append({"optimize": sys.flags.optimize,
                                              "warnerror": "error" in sys.warnoptions,
                                              "case": case, "mechanism": m,
                                              "detail": H.jsonable(v.get("detail")),
                                              "log": v.get("log")})
                if not known_match(known, pid, m):
                    new_count += 1
            if len(res["samples"]) < MAX_SAMPLES and r.get("decided", 0) > 0:
                res["samples"].append(H.jsonable(r.get("sample", case)))
            if new_count >= MAX_VIOL_PER_SHARD:
                # enough witnesses; do not burn the budget on a broken tree
                res["truncated"] = True
                res["exhaustive"] = False
                break
    except Exception:
        res["errors"].append({"case": None, "trace": traceback.format_exc()[-3000:]})
    res["wall"] = time.time() - t0
    res["signatures"] = set(H.EXPLORED.signatures)
    res["lines"] = set(H.EXPLORED.lines)
    with open(out_path, "wb") as f:
        pickle.dump(res, f)


# --------------------------------------------------------------------- parent

def write_replay(pid, tier, seed, v):
    from . import harness as H
    os.makedirs(os.path.join(VERIF, "replays"), exist_ok=True)
    body = {"property": pid, "tier": tier, "seed": seed, "mechanism": v["mechanism"],
            "case": H.jsonable(v["case"]), "case_pickle": pickle.dumps(v["case"]).hex(),
            "detail": v["detail"], "log": v.get("log"), "optimize": v.get("optimize", 0),
            "warnerror": bool(v.get("warnerror"))}
    h = hashlib.blake2b(json.dumps(body["case"], sort_keys=True).encode()
                        + v["mechanism"].encode(), digest_size=6).hexdigest()
    path = os.path.join(VERIF, "replays", f"{pid}-{h}.json")
    with open(path, "w") as f:
        json.dump(body, f, indent=1)
    return path


def _lines_by_file(lines):
    out = {}
    for f, n in lines:
        out[f] = out.get(f, 0) + 1
    return dict(sorted(out.items()))


def run_check(pid, tier, seed, procs):
    t0 = time.time()
    mod = load_prop(pid)
    from . import refcheck
    nvec, problems = refcheck.run()
    if problems:
        print(f"INCONCLUSIVE property={pid} reason=reference-codec-self-check-failed {problems[:2]}")
        return 2
    budget = getattr(mod, "BUDGET", {"quick": 90, "thorough": 1500})[tier]
    nshards = procs
    tmp = tempfile.mkdtemp(prefix=f"vf-{pid}-")
    outs = [os.path.join(tmp, f"shard{i}.pkl") for i in range(nshards)]
    env = dict(os.environ)

    def launch(i):
        # every fourth shard runs under "python -O" (assert statements compiled out): one
        # more setting of the application's environment the client must not depend on
        # ... and every fourth one with warnings turned into errors ("python -W error")
        cmd = [sys.executable] + (["-O"] if i % 4 == 3 else ["-W", "error"] if i % 4 == 1
                                  else []) + [
            "-m", "vf.runner", "--worker", pid, tier, str(seed), str(i),
            str(nshards), outs[i], str(budget)]
        try:
            p = subprocess.run(cmd, cwd=VERIF, env=env, capture_output=True, text=True,
                               timeout=budget * 2 + 120)
            return i, p.returncode, p.stdout[-2000:], p.stderr[-4000:]
        except subprocess.TimeoutExpired:
            return i, "timeout", "", ""

    results = []
    with concurrent.futures.ThreadPoolExecutor(nshards) as ex:
        for r in ex.map(launch, range(nshards)):
            results.append(r)

    agg = {"evals": 0, "cases": 0, "fps": set(), "distinct_extra": 0, "violations": [],
           "samples": [], "obs": {}, "decided": 0, "errors": [], "truncated": False,
           "exhaustive": True, "mech_counts": {}, "signatures": set(), "lines": set()}
    inconclusive = []
    for i, rc, so, se in results:
        if rc == "timeout":
            inconclusive.append(f"shard {i} watchdog timeout")
            continue
        if not os.path.exists(outs[i]):
            inconclusive.append(f"shard {i} died rc={rc}: {se[-400:]!r}")
            continue
        with open(outs[i], "rb") as f:
            r = pickle.load(f)
        for k in ("evals", "cases", "distinct_extra", "decided"):
            agg[k] += r[k]
        agg["fps"] |= r["fps"]
        agg["signatures"] |= r.get("signatures", set())
        agg["lines"] |= r.get("lines", set())
        agg["violations"] += r["violations"]
        for m, c in r.get("mech_counts", {}).items():
            agg["mech_counts"][m] = agg["mech_counts"].get(m, 0) + c
        agg["errors"] += r["errors"]
        agg["truncated"] |= r["truncated"]
        agg["exhaustive"] &= r["exhaustive"]
        for k, v in r["obs"].items():
            agg["obs"][k] = agg["obs"].get(k, 0) + v
        for s in r["samples"]:
            if len(agg["samples"]) < MAX_SAMPLES:
                agg["samples"].append(s)
    shutil.rmtree(tmp, ignore_errors=True)

    known = load_known()
    new_viol = []
    known_hits = {}
    for v in agg["violations"]:
        k = known_match(known, pid, v["mechanism"])
        if k:
            known_hits.setdefault(v["mechanism"], [k, agg["mech_counts"].get(v["mechanism"], 1), v])
        else:
            new_viol.append(v)

    for e in agg["errors"]:
        inconclusive.append("harness error: " + e["trace"].strip().splitlines()[-1][:300])
    required = getattr(mod, "REQUIRED_OBS", [])
    for name in required:
        if agg["obs"].get(name, 0) <= 0:
            inconclusive.append(f"deciding counter {name}=0")
    if agg["decided"] <= 0:
        inconclusive.append("no deciding event observed")
    if agg["truncated"]:
        # budget exhausted: what was explored stands, but say so
        agg["obs"]["budget_truncated"] = 1
    distinct = len(agg["fps"]) + agg["distinct_extra"]

    wall = time.time() - t0
    level = mod.LEVEL
    evidence = {
        "property_id": pid, "tier": tier, "seed": seed, "level": level,
        "coverage": {
            "evaluations": agg["evals"],
            "distinct_nontrivial": distinct,
            "rule": mod.RULE + (" Plus the soak family (vf/soak.py): long random API sessions "
                                "mixing status pushes, exact repeats, commands (also from inside "
                                "callbacks and while a frame trickles in), link faults with "
                                "recovery, idle time, raising subscribers and shutdown + re-init "
                                "under whole-run monitors; this check keeps the violations filed "
                                "under its property (soak_* counters)."
                                if getattr(mod, "SOAK", False) else ""),
            "samples": agg["samples"],
            "exhaustive": bool(getattr(mod, "EXHAUSTIVE", {}).get(tier, False)
                               and agg["exhaustive"] and not inconclusive),
            "cases_run": agg["cases"],
            "deciding_events": agg["decided"],
            "observed": dict(sorted(agg["obs"].items())),
            "reference_vectors_checked": nvec,
            "distinct_schedule_signatures": len(agg["signatures"]),
            "repo_lines_reached": _lines_by_file(agg["lines"]),
            "known_findings_hit": {m: h[1] for m, h in known_hits.items()},
            "verdict": ("violated" if new_viol else "inconclusive" if inconclusive
                        else "held"),
            "inconclusive_reasons": inconclusive,
            "procs": nshards,
        },
        "assumptions": list(getattr(mod, "ASSUMPTIONS", [])),
        "wall_s": round(wall, 3),
        "violations": sum(agg["mech_counts"].get(v["mechanism"], 1)
                          for v in {v["mechanism"]: v for v in new_viol}.values()),
    }
    # (a self-test run against a scratch tree must not overwrite the evidence of /repo)
    evdir = "evidence" if os.environ.get("VF_REPO", "/repo") == "/repo" else "evidence-scratch"
    os.makedirs(os.path.join(VERIF, evdir), exist_ok=True)
    with open(os.path.join(VERIF, evdir, f"{pid}.json"), "w") as f:
        json.dump(evidence, f, indent=1, sort_keys=True)

    for m, (k, n, v) in sorted(known_hits.items()):
        print(f"KNOWN-FINDING: property={pid} {m}: {k['description']} (seen {n}x this run)")
    if new_viol:
        seen = set()
        for v in new_viol:
            if v["mechanism"] in seen:
                continue
            seen.add(v["mechanism"])
            path = write_replay(pid, tier, seed, v)
            print(f"VIOLATION property={pid} replay={path}")
            print(f"  mechanism={v['mechanism']} detail={json.dumps(v['detail'])[:600]}")
        mc = {v["mechanism"]: agg["mech_counts"].get(v["mechanism"], 1) for v in new_viol}
        print(f"MECHANISMS {json.dumps(mc, sort_keys=True)}")
        print(f"SUMMARY property={pid} tier={tier} seed={seed} verdict=violated "
              f"new_violations={sum(mc.values())} evaluations={agg['evals']} wall={wall:.1f}s")
        return 1
    if inconclusive:
        for r in inconclusive[:8]:
            print(f"INCONCLUSIVE property={pid} reason={r}")
        return 2
    print(f"HELD property={pid} tier={tier} seed={seed} evaluations={agg['evals']} "
          f"distinct_nontrivial={distinct} deciding_events={agg['decided']} "
          f"schedules={len(agg['signatures'])} "
          f"observed={json.dumps(dict(sorted(agg['obs'].items())))} wall={wall:.1f}s")
    return 0


def replay(pid, path):
    mod = load_prop(pid)
    with open(path) as f:
        body = json.load(f)
    if body.get("warnerror") and "error" not in sys.warnoptions:
        # found with warnings turned into errors: replay it the same way
        return subprocess.run([sys.executable, "-W", "error", "-m", "vf.runner", pid,
                               "--replay", path], cwd=VERIF).returncode
    if body.get("optimize") and not sys.flags.optimize:
        # found under "python -O": replay it the same way
        return subprocess.run([sys.executable, "-O", "-m", "vf.runner", pid, "--replay", path],
                              cwd=VERIF).returncode
    case = pickle.loads(bytes.fromhex(body["case_pickle"]))
    r = run_one(mod, pid, case)
    known = load_known()
    rc = 0
    for v in r.get("violations", []):
        if known_match(known, pid, v["mechanism"]):
            print(f"KNOWN-FINDING: property={pid} {v['mechanism']}")
        else:
            print(f"VIOLATION property={pid} replay={path}")
            from . import harness as H
            print(f"  mechanism={v['mechanism']} detail={json.dumps(H.jsonable(v.get('detail')))[:1500]}")
            rc = 1
    if rc == 0:
        print(f"REPLAY property={pid} no violation (decided={r.get('decided')})")
    return rc


def main(argv=None):
    argv = list(sys.argv[1:] if argv is None else argv)
    if argv and argv[0] == "--worker":
        _, pid, tier, seed, shard, nshards, out, budget = argv
        worker(pid, tier, int(seed), int(shard), int(nshards), out, float(budget))
        return 0
    ap = argparse.ArgumentParser()
    ap.add_argument("prop")
    ap.add_argument("--tier", default=os.environ.get("VERIF_TIER", "quick"),
                    choices=["quick", "thorough"])
    ap.add_argument("--seed", type=int, default=int(os.environ.get("VERIF_SEED", "0")))
    ap.add_argument("--replay")
    ap.add_argument("--procs", type=int, default=None)
    a = ap.parse_args(argv)
    pid = a.prop.upper()
    if a.replay:
        return replay(pid, a.replay)
    procs = a.procs or (8 if a.tier == "quick" else 16)
    procs = max(1, min(procs, os.cpu_count() or 1))
    return run_check(pid, a.tier, a.seed, procs)


if __name__ == "__main__":
    sys.exit(main())
