"""Glue between the real pyairtouch code and the simulated world: logging
capture, API probes, subscribers, census, getter snapshots."""

from __future__ import annotations

import asyncio
import functools
import datetime
import gc
import hashlib
import json
import logging
import os
import sys
import warnings

import pyairtouch
import pyairtouch.api as api
import pyairtouch.comms.discovery as _disc
import pyairtouch.comms.socket as psock

from . import simloop

REPO = os.path.realpath(os.environ.get("VF_REPO", "/repo")) + "/"
assert os.path.realpath(pyairtouch.__file__).startswith(REPO), pyairtouch.__file__

# UDP: discovery.py creates real sockets; replace the module it sees.
_disc.socket = simloop.fake_socket_module()

_ROOT = logging.getLogger("pyairtouch")


class _LogCapture(logging.Handler):
    def __init__(self):
        super().__init__(level=logging.WARNING)
        self.log = None

    def emit(self, record):
        if self.log is None:
            return
        try:
            msg = record.getMessage()
        except Exception as e:  # a broken log call is itself interesting
            msg = f"<unformattable log record: {e!r}> {record.msg!r}"
        kind = "LOG.error" if record.levelno >= logging.ERROR else "LOG.warning"
        exc = None
        if record.exc_info and record.exc_info[1] is not None:
            exc = repr(record.exc_info[1])
        self.log.add(kind, logger=record.name, msg=msg, exc=exc)


_CAPTURE = _LogCapture()
_ROOT.addHandler(_CAPTURE)
_ROOT.setLevel(logging.WARNING)
_ROOT.propagate = False
logging.getLogger("asyncio").setLevel(logging.CRITICAL)


# The application's logging configuration is part of the environment: the runner switches this
# on for every fifth case (chosen by a hash of the case, so replays agree), which makes every
# level-guarded debug statement of the client run - and anything that hides behind one.
DEBUG_DEFAULT = False
# ... and asyncio's debug mode (what PYTHONASYNCIODEBUG=1 / -X dev give an application) for
# every eleventh case.
LOOP_DEBUG_DEFAULT = False
# ... and, in every third case, another part of the application reads every public attribute
# of the client object each time a frame reaches the simulated console (getters must be free of
# side effects whenever they are called).
POLL_DEFAULT = False
# ... and, for every thirteenth case, the loop creates tasks eagerly
# (loop.set_task_factory(asyncio.eager_task_factory), Python 3.12).
EAGER_DEFAULT = False
# ... and, for every seventh case, the application has turned warnings into errors
# (warnings.simplefilter("error") / python -W error / pytest filterwarnings = error).
WARN_ERROR_DEFAULT = False


# ... or the application has silenced the library's warnings (logger level ERROR), for every
# ninth case.
QUIET_DEFAULT = False


def attach_log(log, debug=False):
    _CAPTURE.log = log
    _ROOT.setLevel(logging.DEBUG if (debug or DEBUG_DEFAULT) else
                   logging.ERROR if QUIET_DEFAULT else logging.WARNING)


def world(debug_logging=False):
    loop, net, log = simloop.new_world()
    attach_log(log, debug_logging)
    return loop, net, log


def run(main_factory, *, debug_logging=False, loop_debug=False):
    """Run `await main_factory(loop, net, log)` in a fresh virtual world.
    Returns (result, log, status) where status is 'ok' | 'quiescent' (deterministic hang) |
    'livelock' (a task spins at one virtual instant)."""
    loop, net, log = world(debug_logging)
    if EAGER_DEFAULT or os.environ.get("VF_EAGER"):
        # the application runs its loop with eager task execution (Python 3.12)
        loop.set_task_factory(asyncio.eager_task_factory)
    if loop_debug or LOOP_DEBUG_DEFAULT or os.environ.get("VF_LOOP_DEBUG"):
        loop.set_debug(True)
    status = "ok"
    result = None
    import warnings
    _wctx = warnings.catch_warnings()
    _wctx.__enter__()
    if WARN_ERROR_DEFAULT:
        warnings.simplefilter("error")
    try:
        try:
            result = loop.run_until_complete(main_factory(loop, net, log))
        except simloop.Quiescent:
            status = "quiescent"
            log.add("HARNESS.quiescent")
        except simloop.Livelock as e:
            status = "livelock"
            log.add("HARNESS.livelock", what=str(e))
    finally:
        _wctx.__exit__(None, None, None)
        _CAPTURE.log = None
        simloop.close_world(loop)
    return result, log, status


MODEL = {4: api.AirTouchModel.AIRTOUCH_4, 5: api.AirTouchModel.AIRTOUCH_5}
PORT = {4: 9004, 5: 9005}


def connect(gen, host="10.0.0.1"):
    """Public factory; must be called with a running loop."""
    return pyairtouch.connect(MODEL[gen], host, PORT[gen])


def registry(gen):
    if gen == 4:
        import pyairtouch.at4.comms.registry as r
    else:
        import pyairtouch.at5.comms.registry as r
    return r.INSTANCE


def new_socket(gen, loop, host="10.0.0.1"):
    return psock.AirTouchSocket(loop=loop, host=host, port=PORT[gen], registry=registry(gen))


async def probe(log, name, coro, **info):
    """Record call / return / raise of a public API call at the boundary."""
    log.add("API.call", name=name, **info)
    try:
        r = await coro
    except asyncio.CancelledError:
        log.add("API.cancelled", name=name)
        raise
    except Exception as e:
        log.add("API.raise", name=name, exc_type=type(e).__name__, exc=repr(e))
        return e
    log.add("API.ret", name=name, value=r if isinstance(r, (bool, int, float, str, type(None))) else repr(r))
    return r


class _Unprintable(Exception):
    def __str__(self):
        return "subscriber " + 7   # TypeError


class Sub:
    """An async subscriber that records its invocations."""

    def __init__(self, log, name, raises=False, hashv=None):
        self.log = log
        self.name = name
        self.raises = raises
        self.calls = []
        # the client keeps subscribers in sets: the order in which they are called is the
        # set's iteration order, i.e. a function of the hashes. A workload can choose it.
        self._hashv = hashv
        self.action = None   # callable run inside the callback (e.g. unsubscribe itself)
        self.delay = 0.0     # an application callback that takes its time

    def __hash__(self):
        return object.__hash__(self) if self._hashv is None else self._hashv

    def __eq__(self, other):
        return self is other

    def failing_when_called(self):
        """The same subscriber as a plain function that records the call and then raises
        instead of returning an awaitable (fails when CALLED, not when awaited)."""
        if getattr(self, "_sync_fn", None) is None:
            def fn(*a, **kw):
                self.calls.append((a, kw))
                self.log.add("SUB.call", name=self.name, args=a, kwargs=kw)
                raise RuntimeError(f"subscriber {self.name} fails when called")
            self._sync_fn = fn
        return self._sync_fn

    async def on_update(self, *a, **kw):
        """The same subscriber as a bound method: `sub.on_update` is a fresh (equal, not
        identical) object on every attribute access, as in `x.subscribe(obj.handler)` followed
        by `x.unsubscribe(obj.handler)`."""
        return await self(*a, **kw)

    async def __call__(self, *a, **kw):
        self.calls.append((a, kw))
        self.log.add("SUB.call", name=self.name, args=a, kwargs=kw)
        if self.delay:
            await asyncio.sleep(self.delay)
        if self.action is not None:
            act, self.action = self.action, None
            r = act()
            if hasattr(r, "__await__"):
                await r   # e.g. a command submitted from inside the callback
        if self.raises == "cancelled":
            # application code that awaits something of its own which was cancelled: the
            # callback ends with CancelledError (the client's task is not being cancelled)
            fut = asyncio.get_running_loop().create_future()
            fut.cancel()
            await fut
        if self.raises == "badstr":
            # an exception that cannot even be printed (its __str__ fails): still the
            # application's problem, not the other subscribers'
            raise _Unprintable(self.name)
        if self.raises == "timeout":
            raise TimeoutError(f"subscriber {self.name} timed out")
        if self.raises:
            raise RuntimeError(f"subscriber {self.name} fails")


def census(loop, mine=()):
    """Tasks and timers alive that the harness did not create."""
    cur = asyncio.current_task(loop)
    tasks = [t for t in asyncio.all_tasks(loop)
             if t is not cur and t not in mine and not t.done()]
    timers = [h for h in loop._scheduled if not h._cancelled]
    return tasks, timers


def timer_owner(h):
    """Who scheduled this TimerHandle: ('task', Task) for a sleep / timeout inside a task,
    ('client', name) for a callback defined in pyairtouch, ('harness', name) for one defined
    in vf.*, ('unknown', name) otherwise."""
    import asyncio.timeouts
    cb = h._callback
    name = getattr(cb, "__qualname__", None) or repr(cb)
    me = getattr(cb, "__self__", None)
    if isinstance(me, asyncio.timeouts.Timeout):
        return ("task", me._task) if me._task is not None else ("unknown", name)
    if cb is asyncio.futures._set_result_unless_cancelled and h._args:
        fut = h._args[0]
        for c in (getattr(fut, "_callbacks", None) or []):
            t = getattr(c[0], "__self__", None)
            if isinstance(t, asyncio.Task):
                return ("task", t)
        return ("unknown", name)
    mod = getattr(cb, "__module__", None) or ""
    if me is not None:
        mod = type(me).__module__
    if isinstance(cb, functools.partial):
        mod = getattr(cb.func, "__module__", "") or mod
    if mod.startswith("pyairtouch"):
        return ("client", name)
    if mod.startswith("vf."):
        return ("harness", name)
    return ("unknown", name)


def client_census(loop, harness_tasks):
    """Tasks and timers alive that belong to the client: every task that is not the
    harness's, and every timer scheduled from pyairtouch code or from such a task.
    Returns (task names, timer names, unknown timer names)."""
    cur = asyncio.current_task(loop)
    tasks = [t for t in asyncio.all_tasks(loop)
             if t is not cur and t not in harness_tasks and not t.done()]
    timers, unknown = [], []
    for h in loop._scheduled:
        if h._cancelled:
            continue
        kind, who = timer_owner(h)
        if kind == "task":
            if who is not cur and who not in harness_tasks and not who.done():
                c = who.get_coro()
                timers.append("timer of task " + getattr(c, "__qualname__", repr(c)))
        elif kind == "client":
            timers.append(who)
        elif kind == "unknown":
            unknown.append(who)
    return describe_tasks(tasks), sorted(timers), sorted(unknown)


def describe_tasks(tasks):
    out = []
    for t in tasks:
        c = t.get_coro()
        out.append(getattr(c, "__qualname__", repr(c)))
    return sorted(out)


def describe_timers(timers):
    out = []
    for h in timers:
        cb = h._callback
        out.append(getattr(cb, "__qualname__", None) or repr(cb))
    return sorted(out)


# ------------------------------------------------------- size() invariant hook

class SizeMonitor:
    """Invariant at a hook (DESIGN.md §C03 O(1)): every encoder handed out by the
    public registry.get_encoder() is wrapped so that each encode() checks
    len(encode(h, m)) == size(m) == h.message_length.  Active in all workloads."""

    def __init__(self):
        self.violations = []
        self.checked = 0

    class _Proxy:
        def __init__(self, inner, mon, gen):
            self._inner, self._mon, self._gen = inner, mon, gen

        def size(self, message):
            return self._inner.size(message)

        def encode(self, header, message):
            out = self._inner.encode(header, message)
            mon = self._mon
            mon.checked += 1
            n = self._inner.size(message)
            if len(out) != n or getattr(header, "message_length", n) != len(out):
                if len(mon.violations) < 50:
                    mon.violations.append({"gen": self._gen, "message": repr(message)[:300],
                                           "size": n, "encoded": len(out),
                                           "header_length": getattr(header, "message_length",
                                                                    None)})
            return out

        def __getattr__(self, name):
            return getattr(self._inner, name)

    def install(self):
        for gen in (4, 5):
            reg = registry(gen)
            orig = reg.get_encoder

            def get_encoder(message_id, _orig=orig, _gen=gen):
                return SizeMonitor._Proxy(_orig(message_id), self, _gen)

            reg.get_encoder = get_encoder


SIZE = SizeMonitor()
SIZE.install()

# Packet-id observation: the public header factory of each registry is wrapped so
# that the harness learns which packet id the send() call it is about to make was
# given (the retry of a queued message re-uses its header, hence its id).
HDR_SINK = [None]


def _install_hdr_observer():
    for gen in (4, 5):
        hf = registry(gen).header_factory
        orig = hf.create_from_message

        def create_from_message(message, message_length, _orig=orig):
            h = _orig(message, message_length)
            sink = HDR_SINK[0]
            if sink is not None:
                sink["pid"] = h.packet_id
                sink["to"] = h.to_address
                HDR_SINK[0] = None
            return h

        hf.create_from_message = create_from_message


_install_hdr_observer()


# ------------------------------------------------------------ getter snapshot

def _safe(fn):
    try:
        return fn()
    except Exception as e:
        return ("RAISED", type(e).__name__, str(e))


def snapshot_zone(z):
    return {
        "zone_id": _safe(lambda: z.zone_id),
        "name": _safe(lambda: z.name),
        "supported_power_states": _safe(lambda: sorted(p.name for p in z.supported_power_states)),
        "power_state": _safe(lambda: z.power_state.name),
        "control_method": _safe(lambda: z.control_method.name),
        "has_temp_sensor": _safe(lambda: z.has_temp_sensor),
        "sensor_battery_status": _safe(lambda: z.sensor_battery_status.name),
        "current_temperature": _safe(lambda: z.current_temperature),
        "target_temperature": _safe(lambda: z.target_temperature),
        "target_temperature_resolution": _safe(lambda: z.target_temperature_resolution),
        "current_damper_percentage": _safe(lambda: z.current_damper_percentage),
        "spill_active": _safe(lambda: z.spill_active),
    }


def _time(t):
    if isinstance(t, datetime.time):
        return (t.hour, t.minute)
    return t


def snapshot_ac(a):
    def err():
        e = a.error_info
        return None if e is None else (e.code, e.description)

    return {
        "ac_id": _safe(lambda: a.ac_id),
        "name": _safe(lambda: a.name),
        "supported_power_controls": _safe(lambda: sorted(p.name for p in a.supported_power_controls)),
        "supported_modes": _safe(lambda: sorted(p.name for p in a.supported_modes)),
        "supported_fan_speeds": _safe(lambda: sorted(p.name for p in a.supported_fan_speeds)),
        "power_state": _safe(lambda: a.power_state.name),
        "selected_mode": _safe(lambda: a.selected_mode.name),
        "active_mode": _safe(lambda: a.active_mode.name),
        "selected_fan_speed": _safe(lambda: a.selected_fan_speed.name),
        "active_fan_speed": _safe(lambda: a.active_fan_speed.name),
        "current_temperature": _safe(lambda: a.current_temperature),
        "target_temperature": _safe(lambda: a.target_temperature),
        "target_temperature_resolution": _safe(lambda: a.target_temperature_resolution),
        "min_target_temperature": _safe(lambda: a.min_target_temperature),
        "max_target_temperature": _safe(lambda: a.max_target_temperature),
        "spill_state": _safe(lambda: a.spill_state.name),
        "on_timer": _safe(lambda: _time(a.next_quick_timer(api.AcTimerType.ON_TIMER))),
        "off_timer": _safe(lambda: _time(a.next_quick_timer(api.AcTimerType.OFF_TIMER))),
        "error_info": _safe(err),
        "zones": _safe(lambda: [z.zone_id for z in a.zones]),
    }


def snapshot(at):
    acs = list(at.air_conditioners)
    zones = {}
    for a in acs:
        for z in a.zones:
            zones[z.zone_id] = snapshot_zone(z)
    return {
        "initialised": _safe(lambda: at.initialised),
        "model": _safe(lambda: at.model.name),
        "update_available": _safe(lambda: at.update_available),
        "console_versions": _safe(lambda: list(at.console_versions)),
        "acs": {a.ac_id: snapshot_ac(a) for a in acs},
        "zones": zones,
    }


# ------------------------------------------------------------------ utilities

def jsonable(x):
    if isinstance(x, (bytes, bytearray)):
        return "hex:" + bytes(x).hex()
    if isinstance(x, dict):
        return {str(k): jsonable(v) for k, v in x.items()}
    if isinstance(x, (list, tuple)):
        return [jsonable(v) for v in x]
    if isinstance(x, (set, frozenset)):
        return sorted(jsonable(v) for v in x)
    if isinstance(x, float) and (x != x or x in (float("inf"), float("-inf"))):
        return repr(x)       # (strict JSON has no word for them)
    if isinstance(x, (str, int, float, bool, type(None))):
        return x
    return repr(x)


def fingerprint(obj):
    return hashlib.blake2b(json.dumps(jsonable(obj), sort_keys=True).encode(),
                           digest_size=8).hexdigest()


def log_slice(log, n=60):
    ev = log.events[-n:]
    return [jsonable(e) for e in ev]


def enable_sanitizers(log):
    """Route CPython runtime diagnostics into the event log (DESIGN §2.7)."""
    def showwarning(message, category, filename, lineno, file=None, line=None):
        log.add("LOOP.warning", category=category.__name__, message=str(message),
                where=f"{filename}:{lineno}")
    warnings.showwarning = showwarning
    warnings.simplefilter("always")

    def unraisable(u):
        log.add("LOOP.unraisable", exc=repr(u.exc_value), obj=repr(u.object),
                msg=u.err_msg)
    sys.unraisablehook = unraisable


def collect():
    gc.collect()
    gc.collect()


def cap(violations, per_mechanism=2, total=12):
    """Keep a few witnesses per mechanism (so one noisy mechanism does not hide
    the others)."""
    seen = {}
    out = []
    for v in violations:
        n = seen.get(v["mechanism"], 0)
        if n < per_mechanism and len(out) < total:
            out.append(v)
        seen[v["mechanism"]] = n + 1
    return out


# ------------------------------------------ observability of what was explored
# (DESIGN.md §2.8) sys.monitoring, tool-scoped, repo code objects only.

class Explored:
    """Per-process record of (a) distinct schedule signatures = hash of the sequence of
    coroutine starts/resumes/throws of pyairtouch code during one virtual-world run, and
    (b) source lines of pyairtouch reached at least once."""

    TOOL = 3

    def __init__(self):
        self.enabled = False
        self.signatures = set()
        self.lines = set()
        self._cur = 0
        self._codes = {}

    def enable(self):
        if self.enabled:
            return
        mon = sys.monitoring
        try:
            mon.use_tool_id(self.TOOL, "vf-explored")
        except ValueError:
            return
        E = mon.events
        CO_COROUTINE = 0x80

        def sched(code, offset, *rest):
            k = self._codes.get(code)
            if k is None:
                if not code.co_filename.startswith(REPO + "pyairtouch") or not (
                        code.co_flags & CO_COROUTINE):
                    self._codes[code] = 0
                    return mon.DISABLE
                k = self._codes[code] = hash((code.co_qualname, code.co_firstlineno)) or 1
            elif k == 0:
                return mon.DISABLE
            self._cur = hash((self._cur, k, offset))
            return None

        def line(code, lineno):
            if code.co_filename.startswith(REPO + "pyairtouch"):
                self.lines.add((code.co_filename[len(REPO):], lineno))
            return mon.DISABLE

        mon.register_callback(self.TOOL, E.PY_START, sched)
        mon.register_callback(self.TOOL, E.PY_RESUME, sched)
        def thrown(code, offset, exc):
            # (PY_THROW cannot be disabled per location)
            r = sched(code, offset)
            return None

        mon.register_callback(self.TOOL, E.PY_THROW, thrown)
        mon.register_callback(self.TOOL, E.LINE, line)
        mon.set_events(self.TOOL, E.PY_START | E.PY_RESUME | E.PY_THROW | E.LINE)
        self.enabled = True

    def begin(self):
        self._cur = 0

    def end(self):
        if self.enabled and self._cur:
            self.signatures.add(self._cur)


EXPLORED = Explored()
_orig_run = run


def run(main_factory, **kw):  # noqa: F811  (wraps the definition above)
    EXPLORED.begin()
    try:
        return _orig_run(main_factory, **kw)
    finally:
        EXPLORED.end()
