"""Socket-level scenario executor: a JSON op list driven against a real
AirTouchSocket on the simulated network (used by C01, C02, C07, C15, C16).

Every submitted message carries a unique serial in its payload so that a frame
seen at the console identifies the send() call it came from (DESIGN.md §2.6).
"""

from __future__ import annotations

import asyncio
import zlib
import datetime

import pyairtouch.at4.comms.x1F_ext as e4
import pyairtouch.at4.comms.x1FFF20_quick_timer as qt4
import pyairtouch.at4.comms.x2A_group_ctrl as gc4
import pyairtouch.at4.comms.x2C_ac_ctrl as ac4
import pyairtouch.at5.comms.x1F_ext as e5
import pyairtouch.at5.comms.x1FFF49_quick_timer as qt5
import pyairtouch.at5.comms.xC0_ctrl_status as c05
import pyairtouch.at5.comms.xC020_zone_ctrl as zc5
import pyairtouch.at5.comms.xC022_ac_ctrl as ac5
import pyairtouch.comms.socket as psock

from . import frames as F
from . import harness as H
from . import refproto as R
from .sockworld import SockWorld, quiesce

KINDS = ("zone_ctrl", "ac_ctrl", "quick_timer")

_P4 = [gc4.GroupPowerControl.UNCHANGED, gc4.GroupPowerControl.TOGGLE,
       gc4.GroupPowerControl.TURN_OFF, gc4.GroupPowerControl.TURN_ON,
       gc4.GroupPowerControl.TURBO]
_P4C = [0, 1, 2, 3, 5]
_M4 = [gc4.GroupControlMethod.UNCHANGED, gc4.GroupControlMethod.CHANGE,
       gc4.GroupControlMethod.DAMPER, gc4.GroupControlMethod.TEMPERATURE]
_ACM4 = [ac4.AcModeControl.AUTO, ac4.AcModeControl.HEAT, ac4.AcModeControl.DRY,
         ac4.AcModeControl.FAN, ac4.AcModeControl.COOL, ac4.AcModeControl.UNCHANGED]
_ACF4 = [ac4.AcFanSpeedControl.AUTO, ac4.AcFanSpeedControl.QUIET, ac4.AcFanSpeedControl.LOW,
         ac4.AcFanSpeedControl.MEDIUM, ac4.AcFanSpeedControl.HIGH,
         ac4.AcFanSpeedControl.POWERFUL, ac4.AcFanSpeedControl.TURBO,
         ac4.AcFanSpeedControl.UNCHANGED]
_ACP4 = [ac4.AcPowerControl.UNCHANGED, ac4.AcPowerControl.TOGGLE, ac4.AcPowerControl.TURN_OFF,
         ac4.AcPowerControl.TURN_ON]
_ZP5 = [zc5.ZonePowerControl.UNCHANGED, zc5.ZonePowerControl.TOGGLE,
        zc5.ZonePowerControl.TURN_OFF, zc5.ZonePowerControl.TURN_ON,
        zc5.ZonePowerControl.TURBO]
_ACM5 = [ac5.AcModeControl.AUTO, ac5.AcModeControl.HEAT, ac5.AcModeControl.DRY,
         ac5.AcModeControl.FAN, ac5.AcModeControl.COOL, ac5.AcModeControl.UNCHANGED]


def make_message(gen, kind, n):
    """(message object, frame type, expected data bytes) for serial n of kind."""
    if gen == 4:
        if kind == "zone_ctrl":
            g, val = n % 16, (n // 16) % 101
            pi, mi = (n // 1616) % 5, (n // 8080) % 4
            msg = gc4.GroupControlMessage(group_number=g, power=_P4[pi], control_method=_M4[mi],
                                          setting=gc4.GroupDamperControl(val))
            return msg, 0x2A, bytes([g, (4 << 5) | (mi << 3) | _P4C[pi], val, 0])
        if kind == "ac_ctrl":
            a, sp = n % 4, (n // 4) % 64
            mi, fi, pi = (n // 256) % 6, (n // 1536) % 8, (n // 12288) % 4
            msg = ac4.AcControlMessage(ac_number=a, power=_ACP4[pi], mode=_ACM4[mi],
                                       fan_speed=_ACF4[fi],
                                       set_point_control=ac4.AcSetPointValue(sp))
            mc = mi if mi < 5 else 0xF
            fc = fi if fi < 7 else 0xF
            return msg, 0x2C, bytes([(pi << 6) | a, (mc << 4) | fc, (1 << 6) | sp, 0])
        a, ty, mins, hrs = n % 4, (n // 4) % 2, (n // 8) % 60, (n // 480) % 24
        msg = e4.ExtendedMessage(qt4.QuickTimerMessage(
            ac_number=a, timer_type=qt4.TimerType(ty),
            duration=datetime.timedelta(hours=hrs, minutes=mins)))
        return msg, 0x1F, R.ext(0xFF20, bytes([a, ty, hrs, mins]))
    if kind == "zone_ctrl":
        z, pi, val = n % 16, (n // 16) % 5, (n // 80) % 101
        val2 = (n // 8080) % 101
        msg = c05.ControlStatusMessage(zc5.ZoneControlMessage([
            zc5.ZoneControlData(zone_number=z, zone_power=_ZP5[pi],
                                zone_setting=zc5.ZoneDamperControl(val)),
            zc5.ZoneControlData(zone_number=(z + 1) % 16,
                                zone_power=zc5.ZonePowerControl.UNCHANGED,
                                zone_setting=zc5.ZoneDamperControl(val2))]))
        return msg, 0xC0, R.c0(0x20, 4, [bytes([z, (4 << 5) | _P4C[pi], val, 0]),
                                         bytes([(z + 1) % 16, (4 << 5), val2, 0])])
    if kind == "ac_ctrl":
        a, raw, mi = n % 16, (n // 16) % 251, (n // 4016) % 6
        msg = c05.ControlStatusMessage(ac5.AcControlMessage([
            ac5.AcControlData(ac_number=a, power=ac5.AcPowerControl.UNCHANGED, mode=_ACM5[mi],
                              fan_speed=ac5.AcFanSpeedControl.UNCHANGED,
                              set_point=(raw + 100) / 10)]))
        mc = mi if mi < 5 else 0xF
        return msg, 0xC0, R.c0(0x22, 4, [bytes([a, (mc << 4) | 0xF, 0x40, raw])])
    a, ty, mins, hrs = n % 16, (n // 16) % 2, (n // 32) % 60, (n // 1920) % 24
    msg = e5.ExtendedMessage(qt5.QuickTimerMessage(
        ac_number=a, timer_type=qt5.TimerType(ty),
        duration=datetime.timedelta(hours=hrs, minutes=mins)))
    return msg, 0x1F, R.ext(0xFF49, bytes([a, ty, hrs, mins]))


def bad_message(gen, how):
    """A message the encoders cannot encode.  how: 'value' -> ValueError /
    NotImplementedError family; 'struct' -> struct.error (byte out of range)."""
    if how == "struct":
        if gen == 4:
            return gc4.GroupControlMessage(
                group_number=1, power=gc4.GroupPowerControl.UNCHANGED,
                control_method=gc4.GroupControlMethod.TEMPERATURE,
                setting=gc4.GroupSetPointControl(set_point=300))
        return c05.ControlStatusMessage(zc5.ZoneControlMessage([
            zc5.ZoneControlData(zone_number=1, zone_power=zc5.ZonePowerControl.UNCHANGED,
                                zone_setting=zc5.ZoneSetPointControl(300.0))]))

    class _Unknown:
        message_id = 0x5E
    if how == "unregistered":
        return _Unknown()
    # ValueError from int(): NaN set-point (AT5) / unregistered sub-message
    if gen == 5:
        return c05.ControlStatusMessage(zc5.ZoneControlMessage([
            zc5.ZoneControlData(zone_number=1, zone_power=zc5.ZonePowerControl.UNCHANGED,
                                zone_setting=zc5.ZoneSetPointControl(float("nan")))]))
    import pyairtouch.at4.comms.x1FFF10_err_info as err4
    return e4.ExtendedMessage(err4.AcErrorInformationMessage(ac_number=0,
                                                             error_info="x" * 300))


POLICIES = {
    "idem": (2, 30.0), "nonidem": (0, 30.0), "conn": (0, 1.0),
    "short": (1, 0.5), "long": (2, 120.0),
    # degenerate but constructible: a message that has expired the moment it is accepted
    "zero": (1, 0.0), "neg": (2, -5.0),
    # a patient application: an hour
    "hour": (2, 3600.0),
    # ... or one that never gives up
    "forever": (2, float("inf")),
}


class Run:
    """Result of one script execution."""

    def __init__(self):
        self.sends = []   # dict(serial, kind, policy, call_seq, call_t, ret_seq, outcome, task)
        self.log = None
        self.status = "ok"
        self.final = {}
        self.api_errors = []   # lifecycle calls (close / reset_connection) that raised


def frames_by_conn(gen, log):
    """conn id -> (frames, rest, error, raw bytes) of what the client wrote."""
    per = {}
    for seq, t, kind, d in log.events:
        if kind == "NET.write":
            per.setdefault(d["conn"], []).append((seq, t, d["data"], d["fault"]))
    out = {}
    for cid, ws in per.items():
        raw = b"".join(w[2] for w in ws)
        frames, rest, err = R.parse_stream(gen, raw)
        # time/seq of the write carrying the first byte of each frame
        offs = []
        o = 0
        for seq, t, data, fault in ws:
            offs.append((o, seq, t, fault))
            o += len(data)
        info = []
        for f in frames:
            first = [x for x in offs if x[0] <= f.start][-1]
            info.append({"frame": f, "seq": first[1], "t": first[2], "conn": cid})
        out[cid] = {"frames": info, "rest": rest, "err": err, "raw": raw, "writes": ws}
    return out


async def execute(gen, ops, w: SockWorld, run: Run, counters=None):
    """Run the op list.  `w` is an opened-or-not SockWorld."""
    loop, net, log = w.loop, w.net, w.log
    counters = counters if counters is not None else {k: 0 for k in KINDS}
    tasks = []
    base = run.base_serial

    async def do_send(msg, rec, pol):
        rec["call_seq"] = log.mark()
        rec["call_t"] = loop.time()
        log.add("API.call", name="send", serial=rec["serial"])
        H.HDR_SINK[0] = rec
        try:
            # one policy object per (retries, lifetime) and script, as an application that
            # keeps its policies in constants would have; "mutate_policy" changes it later
            cache = run.__dict__.setdefault("policies", {})
            policy = cache.get(tuple(pol))
            if policy is None:
                # (built by keyword or, as documented, positionally: retries, lifetime; a whole
                # number of seconds is written as an int by every other script)
                hv = zlib.crc32(repr(ops).encode()) + len(cache)
                life = pol[1]
                if (hv // 2) % 2 and float(life).is_integer():
                    life = int(life)
                    log.add("SCRIPT.policy_int_lifetime", pol=list(pol))
                if hv % 2:
                    policy = psock.RetryPolicy(pol[0], life)
                    log.add("SCRIPT.policy_positional", pol=list(pol))
                else:
                    policy = psock.RetryPolicy(max_retries=pol[0], max_lifetime=life)
                cache[tuple(pol)] = policy
            else:
                policy.max_retries = pol[0]
                if policy.max_lifetime != pol[1]:
                    policy.max_lifetime = pol[1]
            if rec.get("mode") in ("hdr", "hdr_same"):
                # the other public entry point: caller-supplied header
                reg = H.registry(gen)
                if rec["kind"] == "bad:unregistered":
                    # nothing looks the encoder up before the message is held: a header made
                    # for some other message, with this message's id
                    import dataclasses
                    good = make_message(gen, "zone_ctrl", 1)[0]
                    hdr = reg.header_factory.create_from_message(
                        good, reg.get_encoder(good.message_id).size(good))
                    hdr = dataclasses.replace(hdr, message_id=msg.message_id, message_length=0)
                else:
                    size = reg.get_encoder(msg.message_id).size(msg)
                    last = run.__dict__.setdefault("last_hdr", {})
                    prev = last.get(rec["kind"])
                    if rec["mode"] == "hdr_same" and prev is not None \
                            and prev.message_length == size:
                        # a caller that numbers its packets itself and uses a number again:
                        # an equal header for another message
                        import dataclasses
                        hdr = dataclasses.replace(prev)
                        rec["pid"], rec["to"] = hdr.packet_id, hdr.to_address
                        H.HDR_SINK[0] = None
                        log.add("SCRIPT.header_reused", pid=hdr.packet_id)
                    else:
                        hdr = reg.header_factory.create_from_message(msg, size)
                    last[rec["kind"]] = hdr
                await w.sock.send_with_header(hdr, msg, policy)
            else:
                await w.sock.send(msg, policy)
        except asyncio.CancelledError as e:
            if asyncio.current_task().cancelling():
                rec["outcome"] = "cancelled"
                raise
            # nobody cancelled this task: the call itself ended with a cancellation that
            # leaked out of the client (an observation like any other exception)
            H.HDR_SINK[0] = None
            rec["outcome"] = "CancelledError"
            rec["ret_seq"] = log.mark()
            log.add("API.raise", name="send", serial=rec["serial"], exc=repr(e))
            return
        except Exception as e:
            H.HDR_SINK[0] = None
            rec["outcome"] = type(e).__name__
            rec["ret_seq"] = log.mark()
            log.add("API.raise", name="send", serial=rec["serial"], exc=repr(e))
            return
        rec["outcome"] = "ok"
        rec["ret_seq"] = log.mark()
        rec["ret_t"] = loop.time()
        log.add("API.ret", name="send", serial=rec["serial"])

    for op in ops:
        o = op[0]
        if o == "send":
            _, kind, polname, mode = op[:4]
            pol = POLICIES[polname] if isinstance(polname, str) else tuple(polname)
            n = base[kind] + counters[kind]
            counters[kind] += 1
            msg, typ, data = make_message(gen, kind, n)
            rec = {"serial": (kind, n), "kind": kind, "policy": pol, "typ": typ, "data": data,
                   "outcome": "pending", "ret_seq": None, "mode": mode}
            run.sends.append(rec)
            if mode in ("inline", "hdr", "hdr_same"):
                await do_send(msg, rec, pol)
            else:
                tasks.append(loop.create_task(do_send(msg, rec, pol)))
        elif o == "send_again":
            # the application submits the same command once more (an exact copy of the last
            # message of that kind - a user pressing the button twice): a message of its own
            _, kind, polname, mode = op[:4]
            pol = POLICIES[polname] if isinstance(polname, str) else tuple(polname)
            prev = [r for r in run.sends if r["kind"] == kind and r.get("data") is not None]
            if not prev:
                continue
            n = prev[-1]["serial"][1]
            msg, typ, data = make_message(gen, kind, n)
            rec = {"serial": (kind, n, len(run.sends)), "kind": kind, "policy": pol, "typ": typ,
                   "data": data, "outcome": "pending", "ret_seq": None, "mode": mode,
                   "copy_of": prev[-1]["serial"]}
            run.sends.append(rec)
            log.add("SCRIPT.send_again", what=kind)
            if mode in ("inline", "hdr", "hdr_same"):
                await do_send(msg, rec, pol)
            else:
                tasks.append(loop.create_task(do_send(msg, rec, pol)))
        elif o == "send_bad":
            msg = bad_message(gen, op[1])
            rec = {"serial": ("bad", len(run.sends)), "kind": "bad:" + op[1],
                   "policy": POLICIES["idem"], "typ": None, "data": None, "outcome": "pending",
                   "ret_seq": None, "mode": op[2] if len(op) > 2 else "inline"}
            run.sends.append(rec)
            if rec["mode"] in ("inline", "hdr"):
                await do_send(msg, rec, POLICIES["idem"])
            else:
                tasks.append(loop.create_task(do_send(msg, rec, POLICIES["idem"])))
        elif o == "adv":
            if op[1] == 0:
                await asyncio.sleep(0)
            else:
                await asyncio.sleep(op[1])
        elif o == "turns":
            for _ in range(op[1]):
                await asyncio.sleep(0)
        elif o == "q":
            await quiesce(loop)
        elif o == "net":
            net.script.append(tuple(op[1:]))
        elif o == "net_default":
            net.default = tuple(op[1:])
        elif o == "open":
            await _guarded(w, run, "open", w.sock.open_socket())
        elif o == "close":
            await _guarded(w, run, "close", w.sock.close())
        elif o in ("fin", "rst", "stall", "unstall", "garbage", "data", "wfail"):
            c = net.current()
            if c is None:
                log.add("SCRIPT.skipped", op=o)
                continue
            tr = c.transport
            if o == "fin":
                tr.peer_eof()
            elif o == "rst":
                # op[1]: how the dead link shows up on the receive side - a reset (default),
                # a retransmission / keep-alive time-out, "no route to host"
                kind = op[1] if len(op) > 1 else None
                tr.peer_reset({"timeout": TimeoutError(110, "Connection timed out (link)"),
                               "oserror": OSError(113, "No route to host (link)")}.get(kind))
            elif o == "stall":
                tr.stall(graceful=len(op) > 1 and op[1] == "graceful")
            elif o == "unstall":
                tr.unstall()
            elif o in ("garbage", "data"):
                tr.peer_data(bytes.fromhex(op[1]))
            elif o == "wfail":
                c.fail_write_at = c.nwrites + op[1]
                if len(op) > 2:
                    c.fail_exc = op[2]
        elif o == "reset":
            # what the heartbeat manager (or a user) does: public reset_connection()
            tasks.append(loop.create_task(_guarded(w, run, "reset", w.sock.reset_connection())))
        elif o in ("on_connect_send", "on_disconnect_send"):
            # a connection subscriber that submits a message from inside the connected
            # (as the API classes do) / disconnected notification
            _, kind, polname = op[:3]

            def hook(kind=kind, polname=polname):
                pol = POLICIES[polname]
                n = base[kind] + counters[kind]
                counters[kind] += 1
                msg, typ, data = make_message(gen, kind, n)
                rec = {"serial": (kind, n), "kind": kind, "policy": pol, "typ": typ,
                       "data": data, "outcome": "pending", "ret_seq": None, "mode": "hook"}
                run.sends.append(rec)
                return do_send(msg, rec, pol)
            (w.on_connect_hooks if o == "on_connect_send" else w.on_disconnect_hooks).append(hook)
        elif o == "mutate_policy":
            # the application changes a policy object it has already sent messages with
            pol = POLICIES[op[1]] if isinstance(op[1], str) else tuple(op[1])
            obj = run.__dict__.setdefault("policies", {}).get(tuple(pol))
            if obj is not None:
                obj.max_lifetime = op[2]
                if len(op) > 3:
                    obj.max_retries = op[3]
        elif o == "odd_subs":
            w.add_odd_subscribers()
        elif o == "drop_subs":
            # an application that listens to one kind of event only (or, for a while, to none)
            if op[1] in ("conn", "both"):
                w.sock.unsubscribe_on_connection_changed(w._on_conn)
            if op[1] in ("msg", "both"):
                w.sock.unsubcribe_on_message_received(w._on_msg)
            had = getattr(w, "dropped_subs", None)
            w.dropped_subs = op[1] if had in (None, op[1]) else "both"
            log.add("SCRIPT.drop_subs", which=op[1])
        elif o == "sync_raise":
            w.add_sync_raising_subscribers(op[1])
        elif o == "on_disconnect_open":
            # a connection subscriber that re-opens the socket from inside the
            # connected=False notification (e.g. the one close() itself emits)
            async def reopen():
                log.add("API.call", name="open")
                await w.sock.open_socket()
            w.on_disconnect_hooks.append(reopen)
        elif o == "slow_conn":
            # the next connected=True notification takes op[1] seconds in a subscriber
            w.conn_delays.append(op[1])
        elif o == "dns_move":
            # the console gets a new address under the same name (a new DHCP lease); nobody
            # answers at the old one any more
            old_addr = net.dns.get(w.sock.host, w.sock.host)
            if old_addr != op[1]:
                net.gone = (set(net.gone) | {old_addr}) - {op[1]}
                net.dns[w.sock.host] = op[1]
            log.add("SCRIPT.dns_move", name=w.sock.host, old=old_addr, new=op[1])
        elif o == "cancel_sends":
            # the application gives up on the sends that are still under way (a time-out
            # around them, a cancelled request handler): their tasks are cancelled
            n = 0
            for t in tasks:
                if not t.done():
                    t.cancel()
                    n += 1
            log.add("SCRIPT.cancel_sends", n=n)
            await asyncio.sleep(0)
        elif o == "slow_msg":
            # the next received message keeps its subscriber (and with it the client's
            # receive loop) busy for op[1] seconds
            w.msg_delays.append(op[1])
        elif o == "sub_raise":
            if op[1] == "msg":
                w.raise_in_msg_sub = op[2]     # 0 off, 1 raises, 2 ends cancelled
            else:
                w.raise_in_conn_sub = op[2]
        else:
            raise ValueError(f"unknown op {op!r}")
    run.tasks = tasks
    return counters


_SERIAL_BASE = {k: 0 for k in KINDS}


async def _guarded(w, run, name, coro):
    """A public lifecycle call made by the script: whatever it raises is an observation
    (run.api_errors), never a harness crash."""
    w.log.add("API.call", name=name)
    try:
        await coro
    except asyncio.CancelledError as e:
        if asyncio.current_task().cancelling():
            raise
        # (a cancellation nobody asked for, leaking out of the client)
        run.api_errors.append({"call": name, "exc": repr(e), "t": w.loop.time()})
        w.log.add("API.raise", name=name, exc=repr(e))
        return
    except Exception as e:  # noqa: BLE001
        run.api_errors.append({"call": name, "exc": repr(e), "t": w.loop.time()})
        w.log.add("API.raise", name=name, exc=repr(e))
        return
    w.log.add("API.ret", name=name)


def run_script(gen, ops, *, tail=None, open_first=True, settle=40.0, debug=False,
               host=None):
    """Execute ops in a fresh world.  `tail(w, run)` is an optional coroutine
    run after the script (e.g. recovery probes).  Returns Run."""
    run = Run()
    # serials keep growing across scenarios of one process so that the
    # registry's packet counter and the serial space are decoupled
    run.base_serial = dict(_SERIAL_BASE)

    async def main(loop, net, log):
        if host is not None:
            # the client is configured with a host name; it resolves to an address
            net.dns[host] = "10.0.0.1"
            w = SockWorld(gen, loop, net, log, host=host)
        else:
            w = SockWorld(gen, loop, net, log)
        run.world = w
        if open_first:
            await _guarded(w, run, "open", w.sock.open_socket())
        counters = await execute(gen, ops, w, run)
        for k in KINDS:
            _SERIAL_BASE[k] += counters[k]
        if tail is not None:
            await tail(w, run)
        else:
            # let everything that is going to happen, happen
            for c in net.open_conns():
                c.transport.unstall()
            await asyncio.sleep(settle)
            await quiesce(loop)
        run.final = {"open_conns": [c.id for c in net.open_conns()],
                     "is_open": w.sock.is_open, "max_open": net.max_open}
        for t in run.tasks:
            if not t.done():
                t.cancel()
        await asyncio.sleep(0)
        # (subscriber hooks that never fired must not fire on the harness's own final close)
        w.on_connect_hooks.clear()
        w.on_disconnect_hooks.clear()
        w.conn_delays.clear()
        await _guarded(w, run, "close", w.sock.close())
        await quiesce(loop)
        return True

    res, log, st = H.run(main, debug_logging=debug)
    run.log = log
    run.status = st
    return run


def attempts_of(gen, log, rec):
    """Every time the first byte of rec's frame was written:
    [dict(t, conn, seq, fault, first_on_conn, complete)].  Identity = the exact frame
    bytes (header incl. the packet id observed at send() time + payload + CRC); a write
    cut short by a fault matches on the bytes that were written."""
    if "pid" not in rec or rec["data"] is None:
        return []
    want = R.frame(gen, rec["to"], R.ADDR_CLIENT, rec["pid"], rec["typ"], rec["data"])
    by = frames_by_conn(gen, log)
    out = []
    for cid, b in sorted(by.items()):
        for inf in b["frames"]:
            if inf["frame"].raw == want:
                faulted = any(w[3] for w in b["writes"] if inf["seq"] <= w[0] < inf["seq"] + 3)
                out.append({"t": inf["t"], "conn": cid, "seq": inf["seq"], "fault": faulted,
                            "first_on_conn": inf is b["frames"][0], "complete": True})
        rest = b["rest"]
        if rest and want.startswith(bytes(rest)):
            start = len(b["raw"]) - len(rest)
            o = 0
            seq = t = None
            for w in b["writes"]:
                if o <= start < o + len(w[2]):
                    seq, t = w[0], w[1]
                o += len(w[2])
            out.append({"t": t, "conn": cid, "seq": seq, "fault": True,
                        "first_on_conn": start == 0, "complete": False})
    out.sort(key=lambda a: a["seq"])
    return out


def ignored_attempts(gen, log, rec):
    """How often the client tried to write rec's frame to a transport that was already
    lost (never reached the wire, but a write failure from the client's point of view)."""
    if "pid" not in rec or rec["data"] is None:
        return 0
    want = R.frame(gen, rec["to"], R.ADDR_CLIENT, rec["pid"], rec["typ"], rec["data"])
    hdr = want[:R.header_len(gen)]
    return sum(1 for _, _, k, d in log.events if k == "NET.write_ignored" and d["data"] == hdr)
