#!/usr/bin/env python3
"""Regenerate MANIFEST.json from the property modules that exist."""
import json, os, sys
V = os.path.dirname(os.path.dirname(os.path.abspath(__file__)))
props = [json.loads(l) for l in open(os.path.join(V, "properties.jsonl"))]
TEXT = {
 "C01": ("exploration", "3.C01", "Unambiguous send histories (unique serial per message) recorded at the simulated console and at the send() boundary are checked offline for exactly-once, order, no substitution, whole frames and immediacy; held on the seeded random + directed scripts explored (incl. packet-id wrap), not for all histories.", "offline history checker over recorded wire/API events (unique serials), virtual-time asyncio loop"),
 "C02": ("fault_enumeration", "3.C02", "Write faults, resets, refusals and connect latencies are enumerated against every retry policy at the expiry boundaries (socket level) and against every public command of both generations (API level); attempts per message are counted on the recorded wire log.", "fault-injection enumeration + offline attempt counting on recorded wire log"),
 "C03": ("exploration", "3.C03", "Every message class is pushed through the real send path into a simulated transport, judged by an independent reference framing, and fed back through the real receive path; a size()==len(encode()) invariant hook on the public registry is active in every workload.", "round-trip oracle through real send/receive paths + invariant hook on registry.get_encoder"),
 "C05": ("exploration", "3.C05", "Differential monitoring of the registry's public decoders against an independent codec transcribed from the vendor PDFs, exhaustive per byte (and per adjacent byte pair in the thorough tier) over every record layout; three-valued (value / not-available / undecided).", "differential oracle: repo decoders vs independent reference codec, per-byte exhaustive sweeps"),
 "C06": ("exploration", "3.C06", "CRC routine compared with a bit-serial reference on all 1-2 byte strings (all 3-byte strings thorough) and random long strings; every single-bit, sampled/complete double-bit and burst corruption of every frame kind is driven through the real receive path with a recovery probe.", "differential CRC oracle + corruption injection through the real receive path with recovery probes"),
 "C07": ("fault_enumeration", "3.C07", "Fault scripts (depth 1 exhaustive, depth 2 exhaustive in thorough, sampled to depth 5) against a real socket on a virtual-time loop; online single-connection invariant on transport open/close events and a bounded-progress recovery oracle (status probe delivered, probe command written) after faults stop.", "fault-script enumeration with online invariant (<=1 open connection) and bounded-progress recovery oracle"),
 "C13": ("exploration", "3.C13", "The same byte stream is delivered under every 1- and 2-cut segmentation (3-cut for short streams, thorough), byte-at-a-time and random multi-cuts with varying loop turns between segments; deliveries must equal the single-segment baseline, itself cross-checked with the reference parser.", "metamorphic oracle over TCP segmentations of one stream"),
 "C16": ("exploration", "3.C16", "Recorded send outcomes and wire contents are compared with a 20-line sequential queue model (purge expired, capacity 10, flush unexpired in order).", "reference-model monitor (sequential queue model) over recorded history"),
 "C17": ("exploration", "3.C17", "All 256 type bytes, all 0xC0 sub-types, 0xFFxx sub-ids and mutated/random streams are delivered through the real receive path; deliveries are compared with the reference reading, unhandled-exception reports are watched and a recovery probe follows.", "reference-reading oracle + runtime diagnostics watcher + recovery probe"),
 "C04": ("exploration", "3.C04", "Every public control call is made on an initialised client against a simulated console; the single resulting frame is read by the independent command reader and compared with the intent of the call.", "reference command reader over frames captured at the simulated console"),
 "C08": ("fault_enumeration", "3.C08", "Answer patterns (prompt/late/never) over consecutive heartbeats are enumerated on a virtual clock; request instants and client-initiated resets are checked against a silence-clock oracle.", "trace oracle over virtual timestamps of heartbeat requests and client resets"),
 "C09": ("exploration", "3.C09", "Installations x interleaved extra frames x silence points x connect delays; request order at the console, init() return value/time and the public object model are checked.", "trace oracle on request order + model comparison of public getters"),
 "C10": ("exploration", "3.C10", "Sequences of status/timer/error/version frames are injected; after each frame all public getters are compared with an executable reference model fed the same frames through the reference codec.", "executable reference model compared with public getters after every frame"),
 "C11": ("exploration", "3.C11", "Ability bitmaps x arguments: invalid requests must raise ValueError with zero writes; accepted ones produce exactly one frame whose reference reading matches rounding/clamping/timer-pair rules.", "reference command reader + write counting between API call and return"),
 "C12": ("exploration", "3.C12", "Recorded subscriber invocations are compared three-way (MUST/MUST NOT/MAY) with the reference model's diff after every frame, with subscribe/unsubscribe placements and raising subscribers.", "reference-model diff vs recorded subscriber invocations"),
 "C14": ("fault_enumeration", "3.C14", "Connection loss at chosen instants with console state mutated while down; refresh requests at the reconnect instant, convergence of getters and AT4 300 s group poll are checked on virtual time.", "trace oracle on refresh/poll requests + model convergence"),
 "C15": ("fault_enumeration", "3.C15", "shutdown()/close() is started at every loop iteration of recorded timelines; afterwards 1000 s of idle virtual time must show no connect attempt, write or connected notification, no leftover task/timer, all connections closed; optional re-init is checked.", "exhaustive sweep of shutdown instants per timeline + task/timer census"),
 "C18": ("exploration", "3.C18", "Grammar-generated, mutated and random datagrams at arrival times across the three request instants, broadcast and unicast; sendto events and the returned list are checked against the reference grammar.", "trace oracle over simulated UDP events + reference datagram grammar"),
 "C19": ("exploration", "3.C19", "An abstract installation/state/command script is compiled to an AT4 and an AT5 console run; common attributes, accept/reject behaviour and reference command meanings must agree.", "relational (differential) oracle between the two generations"),
}
NOTE = "Trusted base: CPython 3.12 asyncio above the transport (run unmodified), the virtual-time loop and simulated TCP/UDP transports in /verif/vf/simloop.py, the independent reference codec /verif/vf/refproto.py (validated against every worked example of the vendor PDFs at the start of each run). Held = on the executions explored; no universal claim."
checks = []
na = []
for p in props:
    pid = p["id"]
    if os.path.exists(os.path.join(V, "vf", "props", pid.lower() + ".py")) and pid in TEXT:
        lvl, ref, text, tech = TEXT[pid]
        checks.append({
            "property_id": pid,
            "quick_cmd": f"./check {pid} --tier quick",
            "thorough_cmd": f"./check {pid} --tier thorough",
            "evidence_file": f"/verif/evidence/{pid}.json",
            "replay_cmd_template": f"./check {pid} --replay {{path}}",
            "engine": "vf",
            "level_claimed": {"category": lvl, "text": text, "design_ref": ref},
            "level_note": NOTE,
            "technique": "runtime monitoring: " + tech,
        })
    else:
        na.append({"property_id": pid, "reason": "monitor designed (DESIGN.md section 3) but not built yet in this revision; not claimed"})
m = {
 "version": 1,
 "setup_cmd": "/venv/bin/python -c \"import sys; sys.path[:0]=['/repo','/verif']; import pyairtouch, vf.refcheck as r; n,p=r.run(); assert not p, p; print('refproto ok', n)\"",
 "hooks": {"guard": "PYAIRTOUCH_VERIF", "enable": "no source hooks in /repo: every monitor observes at the event-loop, transport and public-API boundaries (./check sets PYAIRTOUCH_VERIF=1 only for symmetry)", "baseline_off_cmd": "cd /repo && /venv/bin/python -m pytest -ra -q -p no:cacheprovider --timeout=900", "source_commits": [], "add_only": True},
 "engines": [{"name": "vf", "path": "/verif/vf", "serves_properties": [c["property_id"] for c in checks], "kind_free_text": "runtime monitoring of the real pyairtouch code on a virtual-time asyncio loop with simulated TCP/UDP, an independent reference codec and a simulated console; offline history checkers and online invariants"}],
 "checks": checks,
 "not_applicable": na,
 "notes": "Exit 0 held (KNOWN-FINDING lines possible), 1 violated, 2 inconclusive. VERIF_SEED / VERIF_TIER honoured. Known findings: /verif/known_findings.json.",
}
json.dump(m, open(os.path.join(V, "MANIFEST.json"), "w"), indent=1)
print(len(checks), "checks;", len(na), "not applicable")
