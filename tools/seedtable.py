#!/usr/bin/env python3
"""Regenerates the table of seeded changes in DESIGN.md (between the SEEDTABLE markers) from
seeded/*/meta.json."""
import glob, json, re
rows = ["| id | needs to manifest | reported by (quick tier; mechanisms) | history |", "|---|---|---|---|"]
for f in sorted(glob.glob("/verif/seeded/*/meta.json")):
    m = json.load(open(f))
    by = []
    for k in m["caught_by"]:
        mech = m["checks"][k].get("mechanisms") or {}
        by.append(k.split("/")[0] + (" after strengthening" if "after" in k else "") + ": " + ", ".join(sorted(mech)[:3]))
    hist = m.get("history", "")
    first = "missed" if "MISSED" in hist else "inconclusive" if "INCONCLUSIVE" in hist else ""
    needs = m["needs_to_manifest"].replace("|", "/").replace("\n", " ")
    if len(needs) > 230:
        needs = needs[:227] + "..."
    rows.append(f"| {m['id']} | {needs} | {'; '.join(by) or '**not reported**'} | {hist[:420].replace('|', '/')} |")
tab = "\n".join(rows)
p = "/verif/DESIGN.md"
s = open(p).read()
s = re.sub(r"<!-- SEEDTABLE -->.*<!-- /SEEDTABLE -->", "<!-- SEEDTABLE -->\n" + tab.replace("\\", "\\\\") + "\n<!-- /SEEDTABLE -->", s, flags=re.S)
open(p, "w").write(s)
print(len(rows) - 2, "rows")
