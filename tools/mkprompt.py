#!/usr/bin/env python3
"""tools/mkprompt.py <new seed id> [<new seed id> ...]
Writes /tmp/agentprompts/<id>.txt: the brief given to a fresh sub-agent that is to seed a change
breaking one property. The agent gets the property's text, its quantifier, what the earlier seeds
of that property needed to manifest (so that it does something else) and a paragraph naming the
kinds of situation that are exercised already - nothing from /verif itself."""
import glob, json, os, sys

props = {}
for line in open("/verif/properties.jsonl"):
    d = json.loads(line)
    props[d["id"]] = d

EXERCISED = (
    "the obvious scenarios and the earlier attempts' scenarios; random long sessions mixing "
    "commands, status pushes, exact repeats, link faults of every kind, idle time and "
    "re-initialisation; boundary values of individual fields and of the CRC state; every "
    "segmentation of the byte stream with pauses and with the application sending meanwhile; "
    "slow, raising, self-unsubscribing and bound-method subscribers, subscribers that send, "
    "close or re-open from inside notifications; two client objects alive in one process; "
    "re-initialisation of one object many times and against other installations; shutdown from "
    "a cancelled task; subscribers returning futures or failing when called; outages of "
    "thousands of failed attempts; check-value collisions between consecutive frames; the same "
    "damaged frame on consecutive connections; arguments passed by keyword or as ints; policy "
    "objects mutated after use; the application's own version requests and commands while the "
    "heartbeat runs; disabled timers with arbitrary time bits; link errors of every OSError kind "
    "on the receive and on the send side; the discoverer object re-used; state reported during "
    "the handshake as varied as later state; console state changing between commands; a "
    "handshake that completes only after init() gave up; open_socket() while open; a link reset "
    "while a subscriber is still busy with the previous frame; the library's loggers at DEBUG "
    "level; AC numbers with gaps; text made of frame-prefix bytes; commands submitted while "
    "the link is down, up to a full buffer, including values no frame has room for "
    "(infinite, NaN, huge); one object re-initialised and the console then repeating earlier "
    "frames byte for byte; AT5 records longer than documented and non-repeating data in front "
    "of the records; retry policies with a lifetime of zero or less; units whose minimum and "
    "maximum set-point coincide; names containing line feeds, tabs and blanks; subscribers that "
    "end with CancelledError or TimeoutError; a second client receiving while the first one's "
    "frame is incomplete; a second init() after one that gave up; unregistered message ids "
    "through send_with_header(); python -O; asyncio debug mode; another task reading every "
    "public attribute at any moment, also during init(); strings that are equal but not "
    "identical to the library's literals; a console that is slow to read while several tasks "
    "send; frames longer than a kilobyte; a console that refuses the reconnection after a "
    "heartbeat reset; init() called again and again (retry loops), also while a handshake is "
    "under way; two overlapping shutdown() calls; every public sending method as the eleventh "
    "message of a full buffer; fractional and infinite arguments; the first subscriber "
    "arriving while a frame is incomplete; leftover legacy bytes beside the AT4 group bitmap; "
    "host names instead of addresses for discovery; sending tasks cancelled by the application "
    "while suspended; dozens of damaged frames over the life of one socket; message objects "
    "changed in place and sent again; the AirTouch object dropped while its air-conditioner "
    "objects are kept; zone names listed in any order and zone numbers with gaps; init() "
    "overlapping a shutdown() that has just started; heartbeat configurations built "
    "positionally; a shutdown() cancelled half-way and called again; the log level changed at "
    "run time, also between two segments of a frame; one callable registered on a zone and on "
    "the AC owning it; status pushed by the console during the handshake; held commands that "
    "expire during a long outage; long host names and serials in discovery answers; an eager "
    "task factory on the loop; close() directly after send(); update checks submitted while "
    "init() is still waiting for the console; hours of heartbeat silence; caller-supplied "
    "headers with every meaningful address; warnings turned into errors (python -W error); "
    "subscribers registered from inside the connected notification; listeners that only the "
    "subscription keeps alive; frames addressed to other clients; more than a hundred consoles "
    "answering a search; zones added at the console during an outage; retry lifetimes of an "
    "hour and outages of many minutes; held messages expiring while a connection attempt is "
    "still in flight; the library's warnings silenced (logger level ERROR); subscribers that "
    "edit the message objects they are handed; byte-identical frames in a row; the socket "
    "closed and re-opened under a running heartbeat manager; the console not reading for "
    "minutes and then reading again; installations without any sensor or without zones; one "
    "console answering a search from two addresses; a host name that resolves to another "
    "address at reconnection; close() while written bytes are still in the transport; bytes "
    "behind the terminator of a name; names that are not NFC-normalised; the same object "
    "re-initialised against an installation that gained an air-conditioner; init() or "
    "open_socket() again while a command is held for the reconnection; CRC buffers changed in "
    "place; heartbeat intervals below one second and of an hour; times of day carrying "
    "seconds, a UTC offset or the fold flag; an error description withdrawn while the error "
    "code stays; OS-level socket errors reported to the discovery socket during a search; "
    "subscriptions made on AC and zone objects while init() is still under way; one message "
    "subscriber failing while another one is still busy with the same frame; retry policies "
    "and heartbeat configurations built positionally; two consoles in one process whose "
    "frames announce different record lengths; a version list that changes while the update "
    "flag stays; two clients in one process both holding messages for links that are down; "
    "unicast searches answered with the searched address in the host field and a second answer "
    "behind it; sends on never-opened and closed sockets with every retry policy through both "
    "entry points; an application cancelling a pending init() itself (wait_for) and calling "
    "it again; reconnections whose very first write fails; sockets with no connection "
    "subscriber, no message subscriber or none at all; version lists with the same strings "
    "in another order or multiplicity; caller-supplied headers equal to the header of a "
    "message that is still waiting; a capability bit as the only change in a status frame; "
    "retry lifetimes given as ints; two subscribers that wait for each other on every frame; "
    "shutdown at every loop iteration after a failed write with a second life half a second "
    "later; dozens of connections in a row that each end in rejected input; sensor zones "
    "that report no reading; temperatures far below zero and of exactly zero; retry "
    "lifetimes without end; zones without a name; one handler registered on every zone; a "
    "lifetime ending between a failed write and the next connection; a socket object whose "
    "earlier life ended during the back-off; reconnections refused once; the event loop held "
    "up by a synchronous call; malformed frames followed by partial ones of the same kind; "
    "error codes changing from one non-zero value to another; single-bit damage in the frame "
    "markers and length words in front of the check-value-covered bytes; a dozen isolated "
    "write faults in the life of one socket; installations without zones across many "
    "init/shutdown cycles; the AC status timer flag flipping between commands; a console "
    "that stops answering while the link stays up; reset_connection() called by the "
    "application during the back-off; AT4 timer commands for several ACs in a row; names "
    "beginning with U+FEFF or containing the model marker; buffers of 4097 and 8193 bytes; "
    "held messages sharing a packet number; error texts ending in blanks; a connection lost "
    "in mid-frame; a slow connect followed by a silent console; lifetimes that decrease "
    "from one held message to the next; version texts of 128..255 bytes; air-conditioners "
    "listed out of ascending order; the AT4 silence poll in a second life; frames of 20000 "
    "and 65535 bytes; arguments that are instances of subclasses of datetime.time / "
    "timedelta; identical records twice in one control message; extended frames from "
    "addresses other than 0x90")

T = """You are helping to evaluate a verification harness by producing a *subtle, realistic regression* in a Python library.

Library: `pyairtouch` (typed asyncio client for Polyaire AirTouch 4/5 AC controllers). You have your OWN git worktree of it at `/tmp/wt/{sid}` (work ONLY there; never touch `/repo` or `/verif`, and do not read anything under `/verif`). Interpreter: `/venv/bin/python`. Existing test suite:
`cd /tmp/wt/{sid} && PYTHONPATH=/tmp/wt/{sid} /venv/bin/python -m pytest -q -p no:cacheprovider`
(272 tests, encoders/decoders only; they must still all pass with your change). No network. IMPORTANT: do NOT use `git stash` (shared between worktrees); to test the unchanged tree use `git diff > /tmp/seeded_out/{sid}/patch.diff; git checkout -- .; <run>; git apply /tmp/seeded_out/{sid}/patch.diff`. There is no PDF tooling; rely on the library's docstrings/comments and docs/design.md for the protocol.

Property that your change must BREAK (code still imports, 272 tests still pass):

"{pid} — {title}. {statement}"

The property is quantified over: {quant}

Earlier attempts - ALL of these are already known to the harness; do something DIFFERENT from every one of them (different code location AND different mechanism AND a different triggering situation):
{earlier}

Study the relevant code ({files}) and look for a place where a plausible refactoring, optimisation, "hardening" or clean-up would silently break ONE clause of the property in ONE specific situation. The harness already exercises: {exercised}. Find a situation OUTSIDE of all that (an unusual but legal order of API calls, a rarely used public entry point or argument type, an interaction between two features, a resource that is reused, a value that is legal but never seen in practice, something that only shows after many repetitions, ...).

The change must clearly violate the property AS STATED (judged by the library's observable behaviour and the documented protocol, not by assumptions about undocumented console behaviour). It must not depend on real-socket behaviour that a faithful in-memory transport could not show.

Deliverables in `/tmp/seeded_out/{sid}/`: `patch.diff` (`git -C /tmp/wt/{sid} diff`, ONE small plausible change that needs something specific to manifest - most inputs keep working); a demonstration (script or pytest file) driving the real public API (`pyairtouch.connect(...)`, `init()`, public methods/attributes, `shutdown()`; for socket-level properties `pyairtouch.comms.socket.AirTouchSocket` directly; for discovery `pyairtouch.discover`) against a fake console on 127.0.0.1 built with `asyncio.start_server` (or a fake UDP responder) that answers the six handshake requests and then pushes frames / drops connections as needed; patch module interval constants or `asyncio.sleep` in the demo to avoid long real waits; it FAILS (non-zero exit) with your change, PASSES (exit 0) on the unchanged tree, deterministic, < 30 s; `notes.md` (what was changed, what is needed to manifest, commands run and outcomes in both directions + the 272 tests with the change). The demonstration must import pyairtouch through PYTHONPATH only (no sys.path manipulation, no hard-coded worktree path). Leave the change applied. Report a 5-line summary.
"""

os.makedirs("/tmp/agentprompts", exist_ok=True)
for sid in sys.argv[1:]:
    pid = sid[:3]
    p = props[pid]
    earlier = []
    for m in sorted(glob.glob(f"/verif/seeded/{pid}*/meta.json")):
        earlier.append("- " + json.load(open(m))["needs_to_manifest"][:260])
    files = ", ".join(p["anchors"]["files"])
    open(f"/tmp/agentprompts/{sid}.txt", "w").write(T.format(
        sid=sid, pid=pid, title=p["title"], statement=p["statement"],
        quant=p["quantifier"]["text"], earlier="\n".join(earlier), files=files,
        exercised=EXERCISED))
    print(sid, len(earlier), "earlier")
