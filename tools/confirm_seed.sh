#!/bin/bash
# tools/confirm_seed.sh <id> <demo file name> : confirm a seeded change in a fresh scratch worktree
# (demo passes without the change, fails with it; the 272 tests pass with it).
set -u
ID=$1; DEMO=$2; SRC=/tmp/seeded_out/$ID; WT=/tmp/wt/confirm_$ID
git -C /repo worktree add -q "$WT" HEAD || exit 2
cd "$WT"
run_demo() { if [[ "$DEMO" == test_* ]]; then PYTHONPATH=$WT timeout 120 /venv/bin/python -m pytest -q -p no:cacheprovider "$SRC/$DEMO" >/tmp/confirm.out 2>&1; else PYTHONPATH=$WT timeout 120 /venv/bin/python "$SRC/$DEMO" >/tmp/confirm.out 2>&1; fi; echo $?; }
a=$(run_demo)
git apply "$SRC/patch.diff" || { echo "patch does not apply"; git -C /repo worktree remove --force "$WT"; exit 2; }
t=$(PYTHONPATH=$WT /venv/bin/python -m pytest -q -p no:cacheprovider 2>&1 | tail -1)
b=$(run_demo)
cd /; git -C /repo worktree remove --force "$WT"
echo "demo_without_change_rc=$a demo_with_change_rc=$b tests_with_change='$t'"
[ "$a" = 0 ] && [ "$b" != 0 ] && [[ "$t" == *"272 passed"* ]] && echo CONFIRMED || echo NOT-CONFIRMED
