#!/bin/bash
# tools/sweep.sh <tier> <seed...> : run every check for the given seeds; print one line per run.
tier=$1; shift
for seed in "$@"; do
  for p in C01 C02 C03 C04 C05 C06 C07 C08 C09 C10 C11 C12 C13 C14 C15 C16 C17 C18 C19; do
    s=$(date +%s)
    out=$(VERIF_SEED=$seed ./check $p --tier $tier 2>&1); rc=$?
    echo "seed=$seed $p rc=$rc $(( $(date +%s)-s ))s $(echo "$out" | grep -E '^(HELD|MECHANISMS|INCONCLUSIVE)' | head -2 | cut -c1-260)"
    if [ $rc -ne 0 ]; then echo "$out" | grep -E "^(VIOLATION|  mechanism)" | head -6 | cut -c1-700; fi
  done
done
