#!/usr/bin/env python3
"""tools/reseed.py <id> <Cnn> "<history>": re-run a check against an already kept seeded
change after the check was strengthened; records the result and the history in meta.json."""
import json, subprocess, sys
sid, prop, hist = sys.argv[1:4]
dst = f"/verif/seeded/{sid}"
assert subprocess.run(["git", "-C", "/repo", "status", "--porcelain"], capture_output=True, text=True).stdout == ""
subprocess.run(["git", "-C", "/repo", "apply", f"{dst}/patch.diff"], check=True)
try:
    p = subprocess.run(["./check", prop, "--tier", "quick"], cwd="/verif", capture_output=True, text=True)
finally:
    subprocess.run(["git", "-C", "/repo", "checkout", "--", "."], check=True)
mech = [l for l in p.stdout.splitlines() if l.startswith("MECHANISMS")]
meta = json.load(open(f"{dst}/meta.json"))
key = f"{prop}/quick (after strengthening)"
meta["checks"][key] = {"exit": p.returncode, "mechanisms": json.loads(mech[0][11:]) if mech else None}
meta["caught_by"] = [k for k, v in meta["checks"].items() if v["exit"] == 1]
meta["history"] = hist
json.dump(meta, open(f"{dst}/meta.json", "w"), indent=1)
print(sid, key, meta["checks"][key])
