#!/usr/bin/env python3
"""tools/reseed.py <id> <Cnn> "<history>": re-run a check against an already kept seeded
change after the check was strengthened; records the result and the history in meta.json."""
import json, subprocess, sys
sid, prop, hist = sys.argv[1:4]
dst = f"/verif/seeded/{sid}"
sys.path.insert(0, "/verif/tools")
import seedlib
with seedlib.patched(f"{dst}/patch.diff") as (env, how):
    res = seedlib.run_check(env, prop)
meta = json.load(open(f"{dst}/meta.json"))
key = f"{prop}/quick (after strengthening)"
meta["checks"][key] = res
meta["caught_by"] = [k for k, v in meta["checks"].items() if v["exit"] == 1]
meta["history"] = hist
json.dump(meta, open(f"{dst}/meta.json", "w"), indent=1)
print(sid, key, meta["checks"][key])
