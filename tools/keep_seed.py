#!/usr/bin/env python3
"""tools/keep_seed.py <id> <Cnn> <demo file> "<what it needs to manifest>" [extra checks...]
Confirms a sub-agent's seeded change (fresh scratch worktree), runs the checks against it in
/repo (apply, check, undo) and stores it under /verif/seeded/<id>/."""
import json, os, shutil, subprocess, sys
sid, prop, demo, needs = sys.argv[1:5]
extra = sys.argv[5:]
src = f"/tmp/seeded_out/{sid}"
r = subprocess.run(["/verif/tools/confirm_seed.sh", sid, demo], capture_output=True, text=True)
print(r.stdout.strip())
confirmed = "CONFIRMED" in r.stdout.splitlines()[-1] and "NOT-" not in r.stdout.splitlines()[-1]
if not confirmed:
    sys.exit("not confirmed; not kept")
sys.path.insert(0, "/verif/tools")
import seedlib
results = {}
with seedlib.patched(f"{src}/patch.diff") as (env, how):
    for c in [prop] + extra:
        results[f"{c}/quick"] = seedlib.run_check(env, c)
dst = f"/verif/seeded/{sid}"
os.makedirs(dst, exist_ok=True)
shutil.copy(f"{src}/patch.diff", dst)
shutil.copy(f"{src}/{demo}", dst)
if os.path.exists(f"{src}/notes.md"):
    shutil.copy(f"{src}/notes.md", dst)
meta = {"id": sid, "property": prop, "origin": "fresh sub-agent given only the property text and its own scratch worktree of /repo (nothing from /verif)",
        "needs_to_manifest": needs, "demonstration": demo,
        "confirmed": r.stdout.strip().splitlines()[-2],
        "what_i_ran": [f"tools/confirm_seed.sh {sid} {demo}  (fresh worktree: demo passes without the change, fails with it, 272 tests pass with it)",
                       how],
        "checks": results,
        "caught_by": [k for k, v in results.items() if v["exit"] == 1]}
json.dump(meta, open(f"{dst}/meta.json", "w"), indent=1)
print(json.dumps(meta["checks"]))
print("caught by:", meta["caught_by"])
