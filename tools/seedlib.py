"""Shared by keep_seed.py / reseed.py: run checks against a tree carrying a seeded patch.
Default: `git -C /repo apply <patch>`, run, `git -C /repo checkout -- .` (as the brief
describes).  With SEED_SCRATCH=1 (used while a background sweep is reading /repo) the patch
goes onto a scratch worktree of /repo's HEAD under /tmp and the checks are pointed at it with
VF_REPO; /repo is not touched."""
import contextlib, json, os, subprocess, tempfile


@contextlib.contextmanager
def patched(patch):
    if os.environ.get("SEED_SCRATCH") == "1":
        w = tempfile.mkdtemp(prefix="seedw-", dir="/tmp")
        os.rmdir(w)
        subprocess.run(["git", "-C", "/repo", "worktree", "add", "--detach", "-q", w, "HEAD"], check=True)
        try:
            subprocess.run(["git", "-C", w, "apply", patch], check=True)
            yield dict(os.environ, VF_REPO=w), f"scratch worktree of /repo HEAD + VF_REPO ({patch})"
        finally:
            subprocess.run(["git", "-C", "/repo", "worktree", "remove", "--force", w])
    else:
        assert subprocess.run(["git", "-C", "/repo", "status", "--porcelain"], capture_output=True,
                              text=True).stdout == "", "/repo not clean"
        subprocess.run(["git", "-C", "/repo", "apply", patch], check=True)
        try:
            yield dict(os.environ), f"git -C /repo apply {patch}; ./check ...; git -C /repo checkout -- ."
        finally:
            subprocess.run(["git", "-C", "/repo", "checkout", "--", "."], check=True)


def run_check(env, c, tier="quick"):
    p = subprocess.run(["./check", c, "--tier", tier], cwd="/verif", capture_output=True, text=True, env=env)
    mech = [l for l in p.stdout.splitlines() if l.startswith("MECHANISMS")]
    return {"exit": p.returncode, "mechanisms": json.loads(mech[0][11:]) if mech else None}
