#!/usr/bin/env python3
"""Re-runs every kept seeded change against the check of its property (scratch worktree, /repo
untouched; all of them, or the ids given) and prints one line each; exit 1 if a seed that was reported is no longer."""
import glob, json, os, sys
sys.path.insert(0, "/verif/tools")
import seedlib
os.environ["SEED_SCRATCH"] = "1"
bad = 0
only = set(sys.argv[1:])
for f in sorted(glob.glob("/verif/seeded/*/meta.json")):
    m = json.load(open(f))
    if only and m["id"] not in only:
        continue
    d = os.path.dirname(f)
    with seedlib.patched(f"{d}/patch.diff") as (env, how):
        props = sorted({k.split("/")[0] for k in m["caught_by"]}) or [m["property"]]
        res = {p: seedlib.run_check(env, p)["exit"] for p in props}
    expect = 1 if m["caught_by"] else 0
    ok = all(v == expect for v in res.values())
    bad += not ok
    print(m["id"], res, "ok" if ok else "CHANGED", flush=True)
sys.exit(1 if bad else 0)
