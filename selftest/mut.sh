#!/bin/bash
# usage: selftest/mut.sh <patch.diff> <Cnn> [tier]   — apply a mutant to /repo, run the check, undo.
set -u
P=$(readlink -f "$1"); C=$2; T=${3:-quick}
cd /repo || exit 2
if [ -n "$(git status --porcelain)" ]; then echo "/repo not clean"; exit 2; fi
git apply "$P" || { echo "patch does not apply"; exit 2; }
cd /verif && ./check "$C" --tier "$T" > /tmp/mut.out 2>&1; rc=$?
git -C /repo checkout -- . 
grep -E "^(VIOLATION|MECHANISMS|HELD|INCONCLUSIVE|SUMMARY)" /tmp/mut.out | cut -c1-300 | head -8
echo "rc=$rc"
