#!/bin/bash
# Runs every own mutant (selftest/cNN_*.diff) against the check of its property on a scratch
# worktree; prints one line each; exit 1 if one is not reported (rc != 1).
cd /verif || exit 2
bad=0
for m in selftest/c[0-9][0-9]_*.diff; do
  c=$(basename "$m" | cut -c1-3 | tr c C)
  r=$(selftest/mutw.sh "$m" "$c" | tail -1)
  echo "$(basename "$m") $c $r"
  [ "$r" = "rc=1" ] || bad=1
done
exit $bad
