#!/bin/bash
# usage: selftest/mutw.sh <patch.diff> <Cnn> [tier]
# Like mut.sh, but leaves /repo alone: the patch is applied to a scratch worktree of /repo's
# HEAD under /tmp and the check is pointed at it with VF_REPO (safe while a sweep is running).
set -u
P=$(readlink -f "$1"); C=$2; T=${3:-quick}
W=/tmp/mutw-$$-$RANDOM
git -C /repo worktree add --detach -q "$W" HEAD || exit 2
trap 'git -C /repo worktree remove --force "$W" >/dev/null 2>&1' EXIT
git -C "$W" apply "$P" || { echo "patch does not apply"; exit 2; }
cd /verif && VF_REPO="$W" ./check "$C" --tier "$T" > "$W.out" 2>&1; rc=$?
grep -E "^(VIOLATION|MECHANISMS|HELD|INCONCLUSIVE|SUMMARY)" "$W.out" | cut -c1-300 | head -8
rm -f "$W.out"
echo "rc=$rc"
